#!/venv/bin/python
"""Tooling: sweep a check with several seeds and list (or record) signatures that are not yet known findings.

usage: tools/harvest.py C18 --seeds 10 11 12 --runs 3000 [--add "prefix text"]
"""
import argparse, json, os, subprocess, sys
from pathlib import Path
V = Path(__file__).resolve().parent.parent
ap = argparse.ArgumentParser()
ap.add_argument("prop"); ap.add_argument("--seeds", nargs="+", type=int, default=[100])
ap.add_argument("--runs", type=int, default=2000); ap.add_argument("--wall", type=int, default=900)
ap.add_argument("--tier", default="quick"); ap.add_argument("--add", action="store_true")
a = ap.parse_args()
found = {}
for seed in a.seeds:
    env = dict(os.environ, DSIM_HARVEST="1", DSIM_RUNS=str(a.runs), DSIM_WALL=str(a.wall), VERIF_SEED=str(seed))
    out = subprocess.run([str(V / "check"), a.prop, "--tier", a.tier], cwd=V, env=env, capture_output=True, text=True).stdout
    for line in out.splitlines():
        if line.startswith("HARVEST "):
            rec = json.loads(line[8:])
            found.setdefault(rec["signature"], rec)
        elif line.startswith("done:") or line.startswith("HARNESS"):
            print(f"seed {seed}: {line}")
for sig, rec in sorted(found.items()):
    print(json.dumps(rec)[:900])
print(f"{len(found)} unlisted signatures")
if a.add and found:
    k = json.load(open(V / "known_findings.json"))
    for sig, rec in sorted(found.items()):
        k.append({"property": a.prop, "signature": sig, "what": "recorded from a sweep: " + rec["detail"][:400], "status": "open"})
    json.dump(k, open(V / "known_findings.json", "w"), indent=1)
    print("added", len(found))
