#!/venv/bin/python
"""Regenerates /verif/MANIFEST.json from the table below (single source of truth for the interface)."""
import json
from pathlib import Path

VERIF = Path(__file__).resolve().parent.parent
TECH = "deterministic simulation with fault injection: seeded search over schedules, clock histories and faults; "

CLAIMED = {
 "C01": ("exploration",
  "seeded search over clock placements (segment/loop boundary phases +-1us/+-1ms/+-d/2, stream ages from seconds to 60 years), option vectors drawn from the run-time option registry, fixture and forged streams (irregular durations, timescales 1..1e7, explicit base offsets), 1-3 frozen-clock players interleaved by the scheduler and server restarts between manifest and segment requests; every URL the manifest spells out for a segment whose availability window (computed from the manifest text only) contains T must answer 200",
  "sampling; requests atomic; segments are judged only when delivered at the clock value of the manifest (frozen wake-up); advertised lists longer than the per-wake-up cap are sampled keeping both window edges",
  TECH + "response oracle computed from manifest text"),
 "C02": ("exploration",
  "same simulated players; every served media segment is read by an independent box walker: $Time$ => tfdt == t and sample durations sum to S@d; $Number$ => mfhd == n and decode time within half a segment (+drift x loops) of (n-startNumber)*duration; SegmentTimelines gapless within and continuous across refreshed manifests; delivered source position (payload identity against the oracle's own scan of the stored file) == presentation time mod timing-reference duration",
  "sampling; half a segment is read as half of the longer of SegmentTemplate@duration and the longest stored segment",
  TECH + "independent ISO-BMFF reader + history oracle"),
 "C03": ("exploration",
  "invariant on every served media segment of the simulated players (DRM systems x locations, PIFF, events, bugs=saio, forged layouts with/without tfdt, sidx, styp, explicit base offset): boxes nest exactly, mdat payload byte-identical to a stored segment, trun data offset designates the first payload byte, sample sizes sum to the payload, senc/trun/saiz sample counts agree and saio designates the first senc entry (waived only under bugs=saio); clients with different options are interleaved and the server restarted",
  "vehicle property: the input quantifier is sampled by swarm configuration; senc internal consistency of stored fixtures is not judged (passed through untouched)",
  TECH + "independent ISO-BMFF reader as response invariant"),
 "C08": ("exploration",
  "history layer over HTTP: a simulated clock walks through calendar boundaries (first seconds of days, months, years, leap days, +-1us, +-59.999999 s) and random steps while a player re-fetches a live manifest with a fixed option vector (symbolic and explicit starts with any UTC offset, depth, mup in {absent,<=0,>0}); all inequalities of the statement are evaluated on exact integers from the manifest text, plus the history rules (publishTime never decreases, symbolic start resolves to one instant within a UTC day, `now` stays 60 s behind); direct layer: same arithmetic on DashTiming objects at many more clock phases; restarts interleaved",
  "sampling; the server's notion of now (clock minus the drift option) is used; publishTime rules are skipped for vendor templates that do not emit the attribute (C05's subject)",
  TECH + "history oracle on manifest attributes"),
 "C09": ("exploration",
  "seeded search over clock histories (T1, delta sequences across update periods, source loops, day/month boundaries, patch ttl), option vectors, interleaved background clients and server restarts; history oracle over successive manifests plus an independent RFC 5261 patch applier compared with the full manifest fetched at the same simulated instant; patch-of-patched chains",
  "sampling; requests atomic; comparisons that need a common time base are skipped when a symbolic start value resolves to a different availabilityStartTime",
  TECH + "history oracle + independent patch applier"),
 "C10": ("exploration",
  "invariant on every initialization-segment response of the simulated players: box-by-box diff against the oracle's own scan of the stored file; only permitted differences are appended pssh boxes (PlayReady/ClearKey when the location set includes moov, carrying the track KID) and removal of mvex/mehd in live mode; every subset of DRM systems x locations is drawn by the swarm, under PYTHONHASHSEED 0..3, with interleaved clients and restarts",
  "vehicle property: sampled option space; the stored init segment is everything before the first moof",
  TECH + "independent box diff as response invariant"),
 "C15": ("exploration",
  "intruder actors holding the credentials of a lesser role (anonymous, guest JWT from /api/refresh/access, user, media-vs-other-users) harvest every CSRF token, cookie and JWT that role can legitimately obtain and fire well-formed mutation recipes for every state-changing handler plus a generic sweep over the routing table discovered at run time x {GET,HEAD,POST,PUT,DELETE}; a route-agnostic state oracle compares the committed content of every table (Token excluded) and the blob directory before and after every delivered request and checks each difference against the documented role policy; a CSRF probe (authorised client) submits fresh, reused, cross-service, cross-cookie, tampered and salt-swapped tokens on operations with unique visible effects under duplicated requests, lost responses, clock jumps past the 20-minute row lifetime and server restarts; legitimate manager traffic is interleaved. Second stage (one run in six): two or three management requests carrying the same CSRF token are served concurrently on baton-passing threads that park at every SQL statement, commit and blob-file operation; the seeded scheduler picks the interleaving (uniform switching or one request stalling after a commit while another runs to its end) and the token must be accepted at most once - in the burst and when one of its requests is sent again afterwards",
  "sampling; outside the second-stage bursts requests are atomic; cookie-session login runs on a shim of Flask-Login, JWT paths on the real library",
  TECH + "state-diff oracle attributing every durable change to one request"),
 "C17": ("exploration",
  "an authorised manager actor issues seeded sequences of 4-28 management operations over the real API (create/edit/delete stream, upload of forged, fixture and truncated media, index, edit and delete media, add/edit/delete key, create/edit/delete multi-period stream, stream defaults) with existing and non-existing targets and repeated names, while restarts, duplicated requests and lost responses are injected; after every delivered request the durable state is read with a private sqlite3 connection and checked for referential consistency, unique names and ownership of deletions; liveness probes ask every listed stream / multi-period stream for manifests of random templates and modes (never 5xx) and every uploaded-and-indexed file is read back through the on-demand and segment routes. Second stage (one run in four): two or three management operations are served concurrently on baton-passing threads (pre-emption at every SQL statement, commit, rollback, blob save, unlink and replace and at the application's upload lock; SQLite and application lock waits are scheduled, a deadlock is resolved like a busy timeout; nearly half of the bursts are conflict pairs aimed at one object: two adds of one name, an edit next to a delete, two uploads of one file name, a double delete; the seed picks per burst between uniform switching and a stall strategy in which one request stops after a commit, lock or file step while another runs to its end); the same referential rules are checked on the state the burst leaves, and whether that state equals some sequential order of the requests is counted in the evidence. Crash points (one run in eight): a management request is served on a baton thread and the process dies at its k-th seam (k enumerated by the run index over SQL statements, commit, rollback, blob save/unlink/replace); uncommitted changes are lost, blob files stay as written, the server restarts and the same rules plus the read-back are evaluated",
  "sampling; outside the bursts requests are atomic; disk-error faults (ENOSPC/EIO) and power-loss semantics are not injected; a crash is modelled as a BaseException at the seam (finally-blocks of the application still run); linearizability of bursts is measured (probes) but not judged because no listed property states it",
  TECH + "invariants on durable state after every event + liveness probes"),
 "C20": ("exploration",
  "the reader's two seams are simulator-owned: the clock behind Buffer.timestamp (ticking, frozen so that all timestamps tie, stepping backwards so that the newest buffer looks oldest - the seed thereby chooses the eviction order) and the underlying file (BytesIO or a real file on the simulated disk, whose position another user of the same handle moves between operations - the server keeps one handle per file and one windowed reader per fragment); seeded sequences of read(n), read(-1), seek (three whences, negative and beyond-end), tell and peek are compared operation by operation with io.BytesIO over the same (offset, size) window for buffer sizes 1..16384 including non-divisors and cache limits >= 2",
  "explicit window sizes only (as the statement quantifies); peek may return more than requested, only its first min(n, remaining) bytes and the unchanged position are judged",
  TECH + "operation-by-operation comparison with a reference model"),
 "C06": ("exploration",
  "VodPlayer actors walk vod and odvod manifests of every template that supports them over fixture and forged streams (irregular durations, non-zero first decode time, tracks shorter/longer than the timing reference): every enumerated number / timeline entry / SegmentList range must be served, one step past the end must be 404, the served fragments must form one gapless track starting at the file's first decode time and lasting the stored duration (oracle's own scan of the file), the declared duration must equal the timing reference to the millisecond and on-demand ranges must tile the stored file on box boundaries; live clients on the same stream, clock jumps and restarts are interleaved and must be irrelevant",
  "vehicle property: sampled option space; the number of segments a $Number$ template enumerates is ceil(Period duration / @duration) as a client computes it",
  TECH + "end-to-end walk oracle with independent file scan"),
 "C13": ("exploration",
  "fault-driven part: transfers of media segments and on-demand files are cut by net.truncate at byte k and resumed with bytes=k- at the same frozen clock, prefix + tail must equal a reference copy; generated part: Range strings around 0, len-1, len, len+1, suffix ranges, open ranges and a catalogue of malformed headers, each compared with the full body fetched at the same clock (206 slice + Content-Range, whole resource for over-long suffix, 416 with bytes */len, 400 or consistent service for non-RFC-7233 headers, never 5xx); other clients interleaved",
  "claimed narrowly: only the truncated-transfer/resume part has simulation content; the header catalogue is plain seeded generation and is counted separately in the evidence (oracle_checks c13-ok / c13-not-single / c13-unsatisfiable vs c13-resume-after-truncate); initialization segments are outside the statement (they do not honour ranges)",
  TECH + "paired ranged/unranged requests at one simulated instant"),
 "C12": ("exploration",
  "multi-period streams (1-3 periods over fixture and forged streams, source offsets and durations on and off segment boundaries, periods reaching beyond the source) are created through the management API; players fetch /mps/live|vod manifests of every template while the clock walks across period and loop boundaries, the server restarts and a manager creates, edits and deletes a different multi-period stream concurrently; oracle: unique ids, contiguity, VOD durations sum to mediaPresentationDuration, live periods cover [now-TSBD, now]; per period: init and every admitted number served, number n carries the payload of the n-th stored segment counted from the one nearest the period's source offset (own scan of the stored files), decode times from 0 and gapless, numbers beyond the source refused with 404",
  "sampling; the per-period walk is done for $Number$ addressing as the statement speaks of segment numbers, SegmentTimeline manifests of multi-period streams are judged at manifest level only",
  TECH + "period-walk oracle against own scan of the stored media"),
 "C14": ("exploration",
  "players follow a video Representation over runs of consecutive segments (vod: the whole track; live: the whole availability window, by number and by timeline, across loops of the source) with event schedules from the swarm (ping/scte35, start, interval, count incl. 0, duration, timescale 1..90000, emsg v0/v1, inband flag); duplicated requests, refresh overlap, interleaved clients and restarts are injected; history oracle over the run: the multiset of emsg ids equals the scheduled events inside the run (events within one tick of the coarser timescale of a run edge may go either way), each in the segment containing it and resolving to its instant; out-of-band manifests list the same schedule; every SCTE-35 payload seen in flight is decoded by an independent bit reader (CRC-32/MPEG-2, event id, PTS, break duration)",
  "sampling; the encode/parse identity over all SCTE-35 field values is a pure function and is not claimed; event density is bounded to >= 0.1 s intervals to keep requests cheap",
  TECH + "history oracle over fetched runs + independent SCTE-35 reader"),
 "C05": ("exploration",
  "the world is built through the management API with hostile stream titles, licence URLs, multi-period titles and period ids (only what the service accepts and persists); players request all 9 templates in every mode they support, single- and multi-period, plus patches, with hostile query values, unknown parameters and hostile Host headers, while the clock sits on values that stress derived lexical forms; every 200 response must parse with lxml, have the same element skeleton as the corresponding response of a twin run in which each hostile string is replaced by a benign placeholder (determinism aligns the two response sequences index by index), and satisfy structural rules written from ISO/IEC 23009-1 (required attributes per MPD@type, lexical validity and sign of xs:duration / xs:dateTime / unsignedInt attributes, id uniqueness per scope, no empty AdaptationSet, template identifiers)",
  "vehicle property: sampled input space; streams offer clear and encrypted variants of each track (encrypted-only streams are C16/C17 territory)",
  TECH + "twin-run skeleton comparison + structural rule set"),
 "C07": ("exploration",
  "for every manifest response of the simulated players (all templates and modes, rich option vectors incl. licence URLs with reserved characters, DRM location subsets, event schedules, error/corruption injection, bug compatibility) the harness captures the OptionsContainer the manifest request resolved (ManifestContext.__init__ wrapped from outside) and feeds the query string of every AdaptationSet's initialization/media URL, read from the XML text as a client sees it, to the server's own option parser under the same stream defaults: every option whose usage includes that media type must compare equal, options whose usage excludes it must be absent; the URL round trip from_string(query-decode(to_string(v))) == v is evaluated for the values that flow; clients with other option vectors are interleaved and the server restarted (process-global option defaults)",
  "vehicle property: sampled; error/corruption options are rewritten to segment numbers by design and only checked for parseability; the round-trip identity over all values of all types is a pure function and is only evaluated for values that occur",
  TECH + "captured-options vs parsed-URL comparison on every manifest"),
 "C11": ("exploration",
  "claimed in part. (a) ClearKey licence store, stateful: a manager adds, edits and deletes keys through the API while a licence client POSTs /clearkey with mixes of known, unknown, duplicate and malformed ids; reference model kid -> key follows acknowledged operations, keeps both outcomes for an operation whose response was lost until a read resolves it, and each answer is judged against the model as it was when the request was served; duplicated requests and restarts injected. (b) cross-message agreement on every encrypted manifest the players fetch: cenc:default_KID equals the KID in the stored tenc box, ContentProtection elements equal systems x locations requested, each cenc:pssh / mspr:pro payload equals what the init segment of the same request carries. (c) every PlayReady Object seen in flight (manifest and init) is parsed by an independent reader and its key id (RFC 4122 bytes_le), LA_URL, AES-ECB checksum and, for computed keys, Microsoft's key-seed algorithm are re-derived with hashlib/uuid/pycryptodome",
  "the quantifier over all 16-byte key ids, seeds and licence-URL strings of the pure helper functions is NOT addressed by this family: only the keys that occur in runs (fixture KIDs, manager-generated random ones) are covered",
  TECH + "reference model of the key store + cross-message comparison"),
 "C16": ("fault_enumeration",
  "three fault families, labelled separately in the evidence. hostile: a finite catalogue built at run time from the routing table and the option registry (15 manifest/media/patch/player targets x every registered option name x 42 type-confused, boundary and hostile values; documented option combinations; every routing rule x 3 fillings of its path variables x {GET,HEAD,POST,PUT,DELETE} x {no body, empty/junk/list JSON, junk form}; the same bodies carrying a CSRF token valid for the route's service; licence-endpoint bodies) is swept in 48 slices x 5 world variants (complete, no encrypted media, no audio, no timing reference, unindexed media) x {anonymous, authorised} - cell (run index) fixed by a stride permutation, VERIF_SEED only rotates the start. storage: stored MP4 files are damaged between requests (truncation at every box boundary -1/0/+1/+4/+9, header bit flips, size-field edits) and then indexed, inspected, listed and served. inject: seeded error-injection sessions (verr/aerr, 404/410/503/504, failures=K, vod and live numbers, neighbours of the target, duplicated requests, lost responses, cookie loss, restarts) against a reference model of the documented protocol. Oracle on every delivered request: no unhandled exception, no 5xx other than the synthetic one the query asks for, and termination within a deterministic step budget (backward-jump counter via sys.monitoring, so a hang is a replayable violation rather than a wall-clock kill). race (second stage): legitimate management operations - random sets and conflict pairs aimed at one object - served concurrently under the pre-emptive scheduler must not answer 5xx either (a statement that gives up on SQLite's write lock when every live request waits is counted, not judged)",
  "the catalogue is finite and enumerated, not exhaustive over all query strings; quick covers 144 of the 480 hostile cells per VERIF_SEED, thorough all of them; requests are atomic",
  TECH + "fault catalogue enumeration with response and step-budget oracle + protocol reference model"),
 "C18": ("fault_enumeration",
  "the repository's BasicDashValidator runs unmodified as an actor on the virtual-time loop (real asyncio.gather concurrency over periods, adaptation sets and representations; inline executor; SimHttpClient over SimNet; SimClock). Acceptance runs: seeded (stream, template, mode, option vector, clock, latency up to 0.6 s) sessions with other clients interleaved must terminate with zero errors. Detection runs: exactly one semantic rewrite of one response per session, enumerated round-robin by run index from the catalogue {tfdt, mfhd sequence, trun data offset outside mdat, saio offset, init box mvhd/trak/mvex removed, SegmentTimeline gap, mandatory MPD attribute removed, availabilityStartTime changed on a refresh} x response position; the validator must report an error located at the corrupted element (manifest line range overlapping its AdaptationSet / the MPD element, or a message naming the segment)",
  "the validator turned out to be far from the statement (crashes, false errors and missed corruptions are listed as known findings by error site / corruption kind / media type); detection power remains for every catalogue entry on video segments in the core regime",
  TECH + "corruption catalogue enumerated over simulated validator sessions"),
}

PENDING_REASON = "check not built yet in this session (planned, see DESIGN.md build order); not claimed until its simulation exists"
NOT_APPLICABLE = {
 "C04": "pure function of input bytes and edit sequence: lazy boxes copy their bytes at parse time, nothing reads a clock, file, or shared state after load; no schedule, fault or second party to simulate",
 "C19": "pure formatting/parsing functions of their arguments (durations, date-times, timecodes): nothing to schedule, delay, crash or interleave",
}
ALL = [f"C{i:02d}" for i in range(1, 21)]


def main() -> None:
    checks = []
    for pid in ALL:
        if pid not in CLAIMED:
            continue
        cat, text, note, tech = CLAIMED[pid]
        checks.append({
            "property_id": pid,
            "quick_cmd": f"./check {pid} --tier quick",
            "thorough_cmd": f"./check {pid} --tier thorough",
            "evidence_file": f"/verif/evidence/{pid}.json",
            "replay_cmd_template": "./check --replay {path}",
            "engine": "dsim",
            "level_claimed": {"category": cat, "text": text, "design_ref": f"DESIGN.md section 6, {pid}"},
            "level_note": note,
            "technique": tech,
        })
    na = []
    for pid in ALL:
        if pid in CLAIMED:
            continue
        na.append({"property_id": pid, "reason": NOT_APPLICABLE.get(pid, PENDING_REASON)})
    man = {
        "version": 1,
        "setup_cmd": "/venv/bin/python -m compileall -q dsim && /venv/bin/python -W ignore -c \"import sys; sys.path.insert(0, '/verif'); from dsim import boot; boot.bootstrap(); print('dsim ok')\"",
        "hooks": {
            "guard": "DASHLIVE_VERIF",
            "enable": "no source hook exists: every seam (clock, secrets, uuid4, network, process lifetime, disk) is patched from outside by dsim.boot",
            "baseline_off_cmd": "cd /repo && /venv/bin/python -m pytest -ra -q -p no:cacheprovider --timeout=900 --continue-on-collection-errors",
            "source_commits": [],
            "add_only": True,
        },
        "engines": [{
            "name": "dsim", "path": "/verif/dsim", "serves_properties": sorted(CLAIMED),
            "kind_free_text": "deterministic discrete-event simulator (SimClock, virtual-time asyncio loop, SimNet quiescence scheduler, in-process restart with globals reset, seeded faults, delta-debugging shrinker, fresh-process replay) driving the real Flask app of /repo",
        }],
        "checks": checks,
        "not_applicable": na,
        "notes": "All checks: ./check <ID> --tier quick|thorough; replay: ./check --replay <file>; determinism self-test: ./check selftest-determinism. Known findings: /verif/known_findings.json.",
    }
    (VERIF / "MANIFEST.json").write_text(json.dumps(man, indent=1))
    print("MANIFEST.json written:", len(checks), "checks,", len(na), "not applicable")


if __name__ == "__main__":
    main()
