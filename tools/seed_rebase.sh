#!/bin/bash
# Re-generate seeded/<P>/<m>/patch.diff against /repo HEAD when fix commits moved the context (3-way apply).
set -u
WT=/tmp/seed-rebase-wt
git -C /repo worktree remove --force $WT 2>/dev/null
git -C /repo worktree add --detach -q $WT HEAD
for p in /verif/seeded/C*/*/patch.diff; do
  ( cd $WT && git checkout -q -- . && git clean -qfd
    if git apply --check "$p" 2>/dev/null; then exit 0; fi
    if git apply --3way "$p" >/dev/null 2>&1 && ! git diff --name-only --diff-filter=U | grep -q .; then
      git diff HEAD > "$p.new" && mv "$p.new" "$p" && echo "rebased $p"
      git reset -q --hard
    else
      echo "CONFLICT $p"; git reset -q --hard
    fi )
done
git -C /repo worktree remove --force $WT
