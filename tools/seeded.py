#!/venv/bin/python
"""Run the registered checks against the seeded defects kept under /verif/seeded (sensitivity evidence).

Every seeded/<PROP>/<name>/ holds patch.diff (a change to dash-live that breaks PROP yet passes the pinned tests),
the author's stand-alone demonstration and meta.json.  For each one a scratch copy of /repo's HEAD is made
outside /repo and /verif, the patch applied there, and the check run with VERIF_REPO pointing at the copy (the
same code path as `git -C /repo apply` + check + `git -C /repo checkout -- .`, without touching /repo, so it can
run next to other checks).  Results go to seeded/results.json; the copy is removed afterwards.

    tools/seeded.py [PROP[/name] ...] [--tier quick] [--seed 0] [--also C05,C09] [--workers 16]
"""
from __future__ import annotations

import argparse
import json
import os
import re
import shutil
import subprocess
import sys
import time
from pathlib import Path

VERIF = Path(__file__).resolve().parent.parent
SEEDED = VERIF / "seeded"
RUN_ROOT = Path(os.environ.get("SEEDED_SCRATCH", "/tmp/seedrun"))


def mutants(selectors: list[str]) -> list[Path]:
    out = []
    for d in sorted(SEEDED.glob("C*/*/patch.diff")):
        mdir = d.parent
        key = f"{mdir.parent.name}/{mdir.name}"
        if selectors and not any(key == s or key.startswith(s + "/") for s in selectors):
            continue
        out.append(mdir)
    return out


def run_one(mdir: Path, prop: str, tier: str, seed: int, workers: int) -> dict:
    key = f"{mdir.parent.name}-{mdir.name}"
    scratch = RUN_ROOT / key
    out = RUN_ROOT / (key + ".out")
    shutil.rmtree(scratch, ignore_errors=True)
    shutil.rmtree(out, ignore_errors=True)
    RUN_ROOT.mkdir(parents=True, exist_ok=True)
    scratch.mkdir(parents=True)
    subprocess.run(f"git -C /repo archive HEAD | tar -x -C {scratch}", shell=True, check=True)
    ap = subprocess.run(["git", "apply", "--whitespace=nowarn", str(mdir / "patch.diff")], cwd=scratch,
                        capture_output=True, text=True)
    if ap.returncode != 0:
        shutil.rmtree(scratch, ignore_errors=True)
        return {"applied": False, "error": ap.stderr[-400:]}
    env = dict(os.environ, VERIF_REPO=str(scratch), DSIM_OUT=str(out), VERIF_SEED=str(seed), DSIM_WORKERS=str(workers),
               DSIM_SHRINK_S=os.environ.get("DSIM_SHRINK_S", "10"))
    t0 = time.monotonic()
    try:
        p = subprocess.run([str(VERIF / "check"), prop, "--tier", tier], env=env, capture_output=True, text=True,
                           timeout=3600)
        txt = p.stdout + p.stderr
        code = p.returncode
    except subprocess.TimeoutExpired as err:
        txt, code = str(err), -1
    sigs = re.findall(r"^\s+signature: (.+)$", txt, re.M) + \
        re.findall(r"\(further signature, not minimised\) (\S+)", txt)
    res = {"applied": True, "exit": code, "caught": code == 1 and "VIOLATION property=" in txt,
           "violations": sigs[:12], "wall_s": round(time.monotonic() - t0, 1),
           "harness": re.findall(r"^HARNESS.*$", txt, re.M)[:3],
           "done": (re.findall(r"^done: .*$", txt, re.M) or [""])[-1]}
    shutil.rmtree(scratch, ignore_errors=True)
    shutil.rmtree(out, ignore_errors=True)
    return res


def main() -> int:
    ap = argparse.ArgumentParser()
    ap.add_argument("selectors", nargs="*")
    ap.add_argument("--tier", default="quick")
    ap.add_argument("--seed", type=int, default=0)
    ap.add_argument("--also", default="")
    ap.add_argument("--workers", type=int, default=16)
    args = ap.parse_args()
    rfile = SEEDED / "results.json"
    results = json.loads(rfile.read_text()) if rfile.exists() else {}
    for mdir in mutants(args.selectors):
        key = f"{mdir.parent.name}/{mdir.name}"
        meta = json.loads((mdir / "meta.json").read_text()) if (mdir / "meta.json").exists() else {}
        props = [mdir.parent.name] + [p for p in meta.get("also_checks", []) if p] + \
            [p for p in args.also.split(",") if p]
        for prop in dict.fromkeys(props):
            r = run_one(mdir, prop, args.tier, args.seed, args.workers)
            results.setdefault(key, {}).setdefault(prop, {})[f"{args.tier}:{args.seed}"] = r
            print(f"{key:28s} {prop} {args.tier}:{args.seed} -> "
                  f"{'CAUGHT' if r.get('caught') else 'missed'} exit={r.get('exit')} {r.get('violations', [])[:3]} "
                  f"{r.get('harness') or ''} {r.get('done', '')}", flush=True)
            rfile.write_text(json.dumps(results, indent=1, sort_keys=True))
    return 0


if __name__ == "__main__":
    sys.exit(main())
