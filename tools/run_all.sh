#!/bin/bash
# usage: tools/run_all.sh <seed> [tier]  -- runs every registered check, prints one summary line each
cd /verif
seed=${1:-0}; tier=${2:-quick}
for p in $(/venv/bin/python -c "import json;print(' '.join(c['property_id'] for c in json.load(open('MANIFEST.json'))['checks']))"); do
  out=$(VERIF_SEED=$seed ./check $p --tier $tier 2>&1); rc=$?
  echo "== $p rc=$rc $(echo "$out" | grep '^done:')"
  echo "$out" | grep -E "^VIOLATION|^  signature|^  detail|further signature|^HARNESS" | cut -c1-400
done
