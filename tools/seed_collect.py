#!/venv/bin/python
"""Confirm and collect the seeded defects produced in scratch worktrees (/tmp/mut/<PROP>/out/m<i>.*).

For each: the patch must apply to the clean worktree, the pinned test suite must still report 87 passed, the
author's demo must exit 1 on the patched tree and 0 on the clean tree.  Confirmed ones are copied to
/verif/seeded/<PROP>/<name>/{patch.diff,demo.py,meta.json}.
"""
import json
import os
import re
import shutil
import subprocess
import sys
from pathlib import Path

ROOT = Path("/tmp/mut")
SEEDED = Path(__file__).resolve().parent.parent / "seeded"
ENV = {"PYTHONPATH": "/tmp/mut/shims:.", "PATH": "/venv/bin:/usr/bin:/bin", "HOME": "/root"}


def sh(cmd, cwd, timeout=600, env=ENV):
    p = subprocess.run(cmd, cwd=cwd, shell=True, capture_output=True, text=True, timeout=timeout, env=env)
    return p.returncode, p.stdout + p.stderr


def main():
    props = sys.argv[1:] or sorted(p.name for p in ROOT.glob("C??") if (p / "out").is_dir())
    for prop in props:
        wt = ROOT / prop
        for diff in sorted((wt / "out").glob("m*.diff")):
            name = diff.stem
            dest = SEEDED / prop / (os.environ.get("SEED_PREFIX", "") + name)
            if dest.exists():
                continue
            demo = wt / "out" / f"{name}.demo.py"
            meta = wt / "out" / f"{name}.meta.json"
            sh("git checkout -q -- . ", wt)
            rc0, out0 = sh(f"/venv/bin/python out/{name}.demo.py", wt, 300)
            rc, out = sh(f"git apply --whitespace=nowarn out/{name}.diff", wt)
            if rc:
                print(f"{prop}/{name}: patch does not apply: {out[-200:]}")
                continue
            _, tests = sh("/venv/bin/python -m pytest -q -p no:cacheprovider --timeout=900 "
                          "--continue-on-collection-errors 2>&1 | tail -1", wt, 900,
                          env={"PATH": ENV["PATH"], "HOME": "/root"})     # the pinned suite runs without the shims
            rc1, out1 = sh(f"/venv/bin/python out/{name}.demo.py", wt, 300)
            sh("git checkout -q -- .", wt)
            passed = re.search(r"(\d+) passed", tests)
            failed = re.search(r"(\d+) failed", tests)
            ok = rc0 == 0 and rc1 == 1 and passed and int(passed.group(1)) == 87 and not failed
            print(f"{prop}/{name}: clean-demo={rc0} mutant-demo={rc1} tests={tests.strip()[-60:]} -> {'OK' if ok else 'REJECT'}")
            if not ok:
                continue
            dest.mkdir(parents=True)
            shutil.copy(diff, dest / "patch.diff")
            shutil.copy(demo, dest / "demo.py")
            m = json.loads(meta.read_text()) if meta.exists() else {}
            m["confirmed"] = {"tests": tests.strip(), "demo_exit_clean": rc0, "demo_exit_mutant": rc1,
                              "demo_output_mutant_tail": out1[-600:]}
            (dest / "meta.json").write_text(json.dumps(m, indent=1))


main()
