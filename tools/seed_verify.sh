#!/bin/bash
# Re-confirm every kept seeded defect against /repo HEAD: the patch applies, the pinned suite passes,
# the demo exits 0 on the clean tree and 1 on the mutated tree.  Usage: tools/seed_verify.sh [--no-tests]
WT=/tmp/seed-verify-wt
git -C /repo worktree remove --force $WT 2>/dev/null
git -C /repo worktree add --detach -q $WT HEAD
for d in /verif/seeded/C*/*/; do
  key=$(echo $d | sed 's#/verif/seeded/##; s#/$##')
  if grep -q '"obsolete"' $d/meta.json 2>/dev/null; then echo "$key obsolete"; continue; fi
  ( cd $WT && git checkout -q -- . && git clean -qfd -e out
    mkdir -p out && cp $d/demo.py out/demo.py      # the demos locate tests/fixtures relative to <worktree>/out/
    PYTHONPATH=/verif/dsim/shims:. timeout 300 /venv/bin/python out/demo.py >/dev/null 2>&1; c=$?
    if ! git apply --whitespace=nowarn $d/patch.diff 2>/dev/null; then echo "$key PATCH-FAILS"; exit; fi
    t="skipped"
    if [ "$1" != "--no-tests" ]; then t=$(/venv/bin/python -m pytest -q -p no:cacheprovider --timeout=900 --continue-on-collection-errors 2>&1 | tail -1 | grep -o "[0-9]* passed\|[0-9]* failed" | tr '\n' ' '); fi
    PYTHONPATH=/verif/dsim/shims:. timeout 300 /venv/bin/python out/demo.py >/dev/null 2>&1; m=$?
    echo "$key clean=$c mutant=$m tests=$t $([ $c = 0 ] && [ $m = 1 ] && echo OK || echo STALE)" )
done
git -C /repo worktree remove --force $WT
