#!/venv/bin/python
"""Refresh the commit hashes quoted in known_findings.json (fixed entries) from the commit subjects."""
import json, re, subprocess
from pathlib import Path
V = Path(__file__).resolve().parent.parent
log = subprocess.run(['git', '-C', '/repo', 'log', '--format=%h %s'], capture_output=True, text=True).stdout.splitlines()
KEYS = {
 'patch=1 and updates disabled': ['mup<=0', 'math.ceil(None)'],
 'positive UTC offset': ['positive UTC offset'],
 'explicit tfhd base_data_offset': ['explicit tfhd', 'explicit base_data_offset'],
 'young live stream': ['young live stream', 'young stream'],
 'mehd box was never removed': ['mehd'],
 'stream defaults could be changed': ['EditStreamDefaults'],
 'invalid CSRF token could still modify': ['CsrfProtection.check committed'],
 'any access token could edit or delete': ['multi-period stream edit/delete'],
 'shared guest account': ['guest account'],
 'without a timing reference answered 500': ['without timing reference'],
 'event count exceeded 32 bits': ['beyond 32 bits'],
 'lose a microsecond': ['microsecond'],
 'injected 5xx errors answered 500': ['increment_error_counter', 'error counter'],
 'BufferedReader.read(-1)': ['read(-1)', "str ''"],
}
def commit_for(subject_key):
    for l in log:
        if subject_key in l:
            return l.split()[0]
    return None
k = json.load(open(V / 'known_findings.json'))
for e in k:
    if not str(e.get('status', '')).startswith('fixed'):
        continue
    for subj, hints in KEYS.items():
        if any(h in e['what'] for h in hints):
            c = commit_for(subj)
            if c:
                e['what'] = re.sub(r'(fixed: property=C\d+ )([0-9a-f]{7}|\(see git log[^)]*\)|<commit>)', r'\g<1>' + c, e['what'])
                e['status'] = f'fixed: {c}'
            break
json.dump(k, open(V / 'known_findings.json', 'w'), indent=1)
for e in k:
    if str(e['status']).startswith('fixed'):
        print(e['property'], e['status'], '|', e['what'][:90])
