"""C11 — DRM key and licence data is cryptographically and structurally correct (claimed in part).

(a) ClearKey licence store - stateful: manager actors add, edit and delete keys while licence actors POST
    /clearkey with mixes of known / unknown / duplicate / malformed ids; reference model = dict kid -> key
    updated on acknowledged management operations, both outcomes kept for an unacknowledged one (lost
    response) until a read resolves it; restarts included.
(b) Cross-message agreement: for every encrypted manifest a player fetches, cenc:default_KID equals the
    track KID read from the stored tenc box, every cenc:pssh / mspr:pro payload in the manifest equals what
    the init segment of the same request carries, and the ContentProtection set equals systems x locations.
(c) Every PlayReady Object seen in flight is parsed by an independent reader: WRMHEADER key id (bytes_le),
    LA_URL, AES-ECB checksum and - for computed keys - the key-seed algorithm are re-derived with
    hashlib / uuid / pycryptodome.  Only the keys that occur in runs are covered; the quantifier over all
    2^128 key ids of the pure helpers is not addressed by this family.
"""
from __future__ import annotations

import base64
import hashlib
import json
import re
import struct
import urllib.parse
import uuid

from .. import clock as simclock
from .. import optgen, worlds
from ..actors.intruder import RoleClient
from ..actors.manager import Manager, rows
from ..actors.player import Player
from ..api import BASE
from ..oracles import isobmff
from ..oracles.media import SYSTEM_IDS, StoredIndex, parse_drm, url_parts
from ..sim import NetTimeout, Sim
from . import base
from . import media_common as mc

ID = "C11"
LEVEL = "exploration"
TEST_KEY_SEED = base64.b64decode("XVBovsmzhP9gRIZxWfFta3VVRPzVEWmJsazEJ46I")
PR_SCHEMES = {"urn:uuid:9a04f079-9840-4286-ab92-e65be0885f95", "urn:uuid:79f0049a-4098-8642-ab92-e65be0885f95"}
CK_PSSH_SCHEME = "urn:uuid:1077efec-c0b2-4d02-ace3-3c1e52e2fb4b"
CK_MPD_SCHEME = "urn:uuid:e2719d58-a985-b3c9-781a-b030af78d30e"
MARLIN_SCHEME = "urn:uuid:5e629af5-38da-4063-8977-97ffbd9902d4"


def budget(tier: str) -> dict:
    return {"runs": 1000, "wall_s": 70} if tier == "quick" else {"runs": 30000, "wall_s": 840}


def b64url(b: bytes) -> str:
    return base64.urlsafe_b64encode(b).rstrip(b"=").decode()


def ms_content_key(kid: bytes, seed: bytes = TEST_KEY_SEED) -> bytes:
    """Microsoft's published key-seed algorithm, written from the specification."""
    kid_le = uuid.UUID(bytes=kid).bytes_le
    seed = seed[:30]
    a = hashlib.sha256(seed + kid_le).digest()
    b = hashlib.sha256(seed + kid_le + seed).digest()
    c = hashlib.sha256(seed + kid_le + seed + kid_le).digest()
    return bytes(a[i] ^ a[i + 16] ^ b[i] ^ b[i + 16] ^ c[i] ^ c[i + 16] for i in range(16))


LA_URLS = ["https://lic.test/pr?x={cfgs}", "https://lic.test/a", "https://lic.test/{default_kid}",
           "https://lic.test/p?a=1&b=2", "https://lic.test/q?x=<y>&z='w'\"v\"", "https://lic.test/{default_kid}?a&b",
           "https://lic.test/r/{kid}/lit", "https://lic.test/s?t=%26amp%3B", "https://lic.test/ü?☃=1&cfg={cfgs}&end"]


def generate(seed: int, tier: str, index: int) -> dict:
    rng = base.rng_for(seed, "gen")
    t0 = simclock.SimClock.parse(rng.choice(mc.T0_CHOICES))
    spec = {"property": ID, "seed": seed, "index": index, "tier": tier, "hashseed": index % base.HASHSEEDS,
            "t0_us": t0, "sched_seed": rng.getrandbits(32)}
    if index % 2 == 0:
        spec["kind"] = "drm"
        spec["world"] = {"streams": ["bbb"]}
        actors = []
        for i in range(rng.choice([1, 2])):
            script = []
            for _ in range(rng.randrange(1, 4)):
                manifest = rng.choice(["hand_made.mpd", "manifest_e.mpd", "manifest_h.mpd", "manifest_i.mpd",
                                       "manifest_n.mpd", "manifest_ef.mpd", "manifest_b.mpd"])
                mode = rng.choice(["live", "vod"]) if manifest != "manifest_b.mpd" else "vod"
                q = {"drm": optgen.gen_drm(rng)}
                if rng.random() < 0.5:
                    q["playready__version"] = rng.choice(["1.0", "2.0", "3.0", "4.0"])
                if rng.random() < 0.3:
                    q["playready__la_url"] = rng.choice(LA_URLS)
                if rng.random() < 0.3:
                    q["abr"] = "0"
                if mode == "live" and rng.random() < 0.4:
                    q["start"] = rng.choice(["epoch", "today"])
                script.append({"op": "manifest", "path": f"/dash/{mode}/bbb/{manifest}", "q": q})
                script.append({"op": "inits"})
            actors.append({"id": f"obs{i + 1}", "kind": "drmplayer", "prng": rng.getrandbits(32),
                           "latency": {"min_us": 0, "jitter_us": rng.choice([0, 50_000])}, "script": script})
        if rng.random() < 0.3:
            actors.append({"id": "chaos", "kind": "drmplayer", "prng": 0,
                           "script": [{"op": "sleep", "us": rng.randrange(0, 100_000)}, {"op": "restart"}]})
        if rng.random() < 0.35:
            # the keys of the encrypted fixture are edited while players fetch manifests and init segments:
            # every PlayReady Object must follow the key stored at the time of the request
            mscript = [{"op": "auth"}]
            for _ in range(rng.randrange(1, 4)):
                mscript.append({"op": "sleep", "us": rng.randrange(0, 60_000)})
                mscript.append({"op": "edit_key", "which": rng.randrange(3), "key": "%032x" % rng.getrandbits(128),
                                "computed": False})
            actors.append({"id": "mgr", "kind": "manager", "role": "media", "prng": rng.getrandbits(32),
                           "latency": {"min_us": 1000, "jitter_us": rng.choice([0, 40_000])}, "script": mscript})
        spec["actors"] = actors
    else:
        spec["kind"] = "licence"
        spec["world"] = {"streams": ["fza"]}
        kids = ["%032x" % rng.getrandbits(128) for _ in range(4)] + ["1ab45440532c439994dc5c5ad9584bac"]
        mscript = [{"op": "auth"}]
        for _ in range(rng.randrange(3, 12)):
            r = rng.random()
            if r < 0.55:
                mscript.append({"op": "add_key", "kid": rng.choice(kids),
                                "key": rng.choice([None, "%032x" % rng.getrandbits(128)])})
            elif r < 0.75:
                mscript.append({"op": "edit_key", "which": rng.randrange(5), "key": "%032x" % rng.getrandbits(128),
                                "computed": False})
            elif r < 0.92:
                mscript.append({"op": "delete_key", "which": rng.randrange(5)})
            else:
                mscript.append({"op": "restart"})
        mgr = {"id": "mgr", "kind": "manager", "role": "media", "prng": rng.getrandbits(32),
               "latency": {"min_us": 1000, "jitter_us": rng.choice([0, 400_000])}, "script": mscript}
        if rng.random() < 0.4:
            mgr["faults"] = [{"msg": rng.randrange(4, 25), "kind": rng.choice(["net.drop_resp", "net.dup"])}]
        lscript = []
        for _ in range(rng.randrange(3, 14)):
            ids = [rng.choice(kids + ["%032x" % rng.getrandbits(128)]) for _ in range(rng.randrange(0, 4))]
            if rng.random() < 0.2 and ids:
                ids.append(ids[0])
            st = {"op": "licence", "kids": ids}
            if rng.random() < 0.12:
                st["raw"] = rng.choice(["!!!", "", "AAAA", "a" * 22 + "=", "_-_-"])
            lscript.append(st)
            lscript.append({"op": "sleep", "us": rng.randrange(0, 500_000)})
        lic = {"id": "lic", "kind": "licence", "prng": rng.getrandbits(32),
               "latency": {"min_us": 1000, "jitter_us": rng.choice([0, 300_000])}, "script": lscript}
        spec["actors"] = [mgr, lic]
    return spec


# ------------------------------------------------------------------------------------------ (b) + (c)
class DrmPlayer(Player):
    kind = "drmplayer"

    async def run(self) -> None:
        for step in self.script:
            op = step["op"]
            if op == "manifest":
                q = step.get("q") or {}
                await self.fetch_manifest(BASE + step["path"] + "?" + urllib.parse.urlencode(q), None)
            elif op == "inits":
                doc = self.current
                if doc is None or doc.mpd is None:
                    continue
                from ..oracles import mpd as mpdlib
                for period in doc.mpd.periods:
                    for aset in period.asets:
                        for rep in aset.reps:
                            if rep.template is None or not rep.template.initialization:
                                continue
                            url = mpdlib.segment_url(rep, rep.template.initialization)
                            try:
                                resp = await self.get(url)
                            except NetTimeout:
                                continue
                            self.notify("on_init", doc, aset, rep, url, resp)
            elif op == "sleep":
                await self.sleep_us(int(step["us"]))
            elif op == "restart":
                self.sim.restart(self.id)


def parse_pro(pro: bytes) -> dict:
    """Independent PlayReady Object reader."""
    if len(pro) < 10:
        raise ValueError("PRO too small")
    total, count = struct.unpack_from("<IH", pro, 0)
    if total != len(pro):
        raise ValueError(f"PRO length field {total} != {len(pro)}")
    pos = 6
    out = {"records": count, "header": None}
    for _ in range(count):
        rtype, rlen = struct.unpack_from("<HH", pro, pos)
        pos += 4
        body = pro[pos:pos + rlen]
        if len(body) != rlen:
            raise ValueError("PRO record truncated")
        pos += rlen
        if rtype == 1:
            out["header"] = body.decode("utf-16-le")
    if pos != len(pro):
        raise ValueError("PRO has trailing bytes")
    return out


def wrm_fields(xml: str) -> dict:
    from lxml import etree
    root = etree.fromstring(xml.encode("utf-8"))
    ns = root.nsmap.get(None)
    q = "{%s}" % ns if ns else ""
    version = root.attrib.get("version")
    kids = []
    checks = []
    for k in root.iter(q + "KID"):
        if k.attrib.get("VALUE"):
            kids.append(base64.b64decode(k.attrib["VALUE"]))
            if k.attrib.get("CHECKSUM"):
                checks.append(base64.b64decode(k.attrib["CHECKSUM"]))
        elif k.text and k.text.strip():
            kids.append(base64.b64decode(k.text.strip()))
    for c in root.iter(q + "CHECKSUM"):
        if c.text and c.text.strip():
            checks.append(base64.b64decode(c.text.strip()))
    la = [e.text for e in root.iter(q + "LA_URL")]
    return {"version": version, "kids": kids, "checksums": checks, "la_url": la[0] if la else None}


class DrmOracle:
    def __init__(self, sim: Sim, world) -> None:
        self.sim = sim
        self.world = world
        self.key_epoch = 0          # number of management requests delivered so far (they may change a key)
        self.index = StoredIndex(world.blob_dir)
        self.manifest_cp: dict[tuple, dict] = {}

    def after_delivery(self, msg, resp) -> None:
        # responses travel: what the observers judge later is compared with the key store as it was when the
        # request was served, not when the answer arrived
        if getattr(msg.actor, "kind", "") == "manager":
            self.key_epoch += 1
        else:
            resp.key_epoch = self.key_epoch
            resp.keys_at_delivery = self.keys()

    def keys(self) -> dict[str, dict]:
        return {r["hkid"].lower(): r for r in rows(self.world, "key")}

    def on_manifest(self, actor, doc, prev) -> None:
        sim = self.sim
        if not actor.id.startswith("obs") or doc.mpd is None:
            return
        info = url_parts(doc.url)
        q = info["q"]
        want = parse_drm(q.get("drm"))
        tmpl = info["path"].split("/")[-1]
        try:
            version = float(q["playready__version"]) if q.get("playready__version") else None
        except ValueError:
            version = None
        for period in doc.mpd.periods:
            for aset in period.asets:
                cps = aset.protections
                if not aset.reps:
                    continue
                sf = self.index.file_for("bbb", aset.reps[0].id)
                if sf is None or sf.kid is None:
                    continue      # clear track (fallback to clear media)
                subj = f"{tmpl}/{aset.content_type}"
                sim.check("c11-contentprotection")
                schemes = [cp["attrib"].get("schemeIdUri", "").lower() for cp in cps]
                # default_KID
                dk = [cp["attrib"].get("{urn:mpeg:cenc:2013}default_KID") for cp in cps
                      if cp["attrib"].get("{urn:mpeg:cenc:2013}default_KID")]
                if not dk:
                    sim.violate("default-kid-missing", subj, f"no cenc:default_KID; {doc.url}")
                for d in dk:
                    if d.replace("-", "").lower() != sf.kid.hex():
                        sim.violate("default-kid", subj, f"cenc:default_KID={d}, stored tenc KID {sf.kid.hex()}; {doc.url}")
                got_systems = set()
                if any(s in PR_SCHEMES for s in schemes):
                    got_systems.add("playready")
                if any(s in (CK_PSSH_SCHEME, CK_MPD_SCHEME) for s in schemes):
                    got_systems.add("clearkey")
                if MARLIN_SCHEME in schemes:
                    got_systems.add("marlin")
                if got_systems != set(want):
                    sim.violate("contentprotection-systems", subj,
                                f"manifest has {sorted(got_systems)}, requested {sorted(want)} (drm={q.get('drm')}); {doc.url}")
                rec = {"pssh": {}, "pro": None, "key_epoch": getattr(doc.resp, "key_epoch", self.key_epoch)}
                for cp in cps:
                    scheme = cp["attrib"].get("schemeIdUri", "").lower()
                    el = cp["elem"]
                    psshs = [c for c in el if isinstance(c.tag, str) and c.tag == "{urn:mpeg:cenc:2013}pssh"]
                    pros = [c for c in el if isinstance(c.tag, str) and c.tag.endswith("}pro")]
                    system = "playready" if scheme in PR_SCHEMES else "clearkey" if scheme == CK_PSSH_SCHEME else None
                    if system is None:
                        continue
                    locs = want.get(system, set())
                    sim.check("c11-locations")
                    has_cenc = bool(psshs)
                    want_cenc = "cenc" in locs and not (system == "playready" and version == 1.0)
                    if has_cenc != want_cenc:
                        sim.violate("location-cenc", f"{subj}/{system}",
                                    f"cenc:pssh {'present' if has_cenc else 'absent'}, locations {sorted(locs)} "
                                    f"version {version}; {doc.url}")
                    if system == "playready":
                        if bool(pros) != ("pro" in locs):
                            sim.violate("location-pro", subj, f"mspr:pro {'present' if pros else 'absent'}, "
                                                              f"locations {sorted(locs)}; {doc.url}")
                    for p in psshs:
                        try:
                            raw = base64.b64decode((p.text or "").strip(), validate=True)
                            box = isobmff.pssh(isobmff.parse(raw).children[0])
                        except Exception as err:  # noqa: BLE001
                            sim.violate("manifest-pssh-malformed", f"{subj}/{system}", f"{err}; {doc.url}")
                            continue
                        if box.system_id != SYSTEM_IDS[system]:
                            sim.violate("manifest-pssh-systemid", f"{subj}/{system}", f"{box.system_id.hex()}; {doc.url}")
                        rec["pssh"][system] = raw
                        if system == "playready":
                            self.check_pro(box.data, sf.kid, q, subj + "/cenc", doc.url, doc.resp)
                        elif box.kids and sf.kid not in box.kids:
                            sim.violate("manifest-pssh-kid", f"{subj}/{system}", f"{[k.hex() for k in box.kids]}; {doc.url}")
                    for p in pros:
                        try:
                            raw = base64.b64decode((p.text or "").strip(), validate=True)
                        except Exception as err:  # noqa: BLE001
                            sim.violate("manifest-pro-base64", subj, f"{err}; {doc.url}")
                            continue
                        rec["pro"] = raw
                        self.check_pro(raw, sf.kid, q, subj + "/pro", doc.url, doc.resp)
                for rep in aset.reps:
                    self.manifest_cp[(actor.id, doc.url, doc.fetched_us, rep.id)] = rec

    def check_pro(self, pro: bytes, kid: bytes, q: dict, subj: str, where: str, resp=None) -> None:
        sim = self.sim
        sim.check("c11-pro")
        try:
            rec = parse_pro(pro)
            if rec["header"] is None:
                raise ValueError("no WRMHEADER record")
            f = wrm_fields(rec["header"])
        except Exception as err:  # noqa: BLE001
            sim.violate("pro-malformed", subj, f"{type(err).__name__}: {err}; {where}")
            return
        kid_le = uuid.UUID(bytes=kid).bytes_le
        if kid_le not in f["kids"]:
            sim.violate("pro-kid", subj, f"WRMHEADER KIDs {[k.hex() for k in f['kids']]}, expected bytes_le "
                                         f"{kid_le.hex()} of {kid.hex()}; {where}")
        key_row = (getattr(resp, "keys_at_delivery", None) or self.keys()).get(kid.hex())
        if key_row is None:
            sim.violate("pro-key-unknown", subj, f"no stored key for {kid.hex()}; {where}")
            return
        key = bytes.fromhex(key_row["hkey"])
        from Crypto.Cipher import AES
        want = AES.new(key, AES.MODE_ECB).encrypt(kid_le)[:8]
        if f["checksums"] and want not in f["checksums"]:
            sim.violate("pro-checksum", subj, f"checksums {[c.hex() for c in f['checksums']]}, expected {want.hex()}; {where}")
        if key_row["computed"]:
            sim.check("c11-keyseed")
            if ms_content_key(kid) != key:
                sim.violate("computed-key", subj, f"stored computed key {key.hex()} != key-seed algorithm "
                                                  f"{ms_content_key(kid).hex()} for {kid.hex()}; {where}")
        la = q.get("playready__la_url")
        if la and f["la_url"] is not None:
            want = la                                  # the value the query string carries, decoded once
            sim.check("c11-la-url")
            if "{cfgs}" in want:
                head, tail = want.split("{cfgs}", 1)
                ok = f["la_url"].startswith(head.replace("{default_kid}", kid.hex())) and \
                    f["la_url"].endswith(tail.replace("{default_kid}", kid.hex()))
            else:
                # {default_kid} is the only other documented field; any other brace is literal text
                ok = f["la_url"] == want.replace("{default_kid}", kid.hex())
            if not ok:
                sim.violate("pro-la-url", subj, f"LA_URL {f['la_url']!r}, requested {want!r}; {where}")

    def on_init(self, actor, doc, aset, rep, url, resp) -> None:
        sim = self.sim
        if not actor.id.startswith("obs") or resp.status != 200:
            return
        rec = self.manifest_cp.get((actor.id, doc.url, doc.fetched_us, rep.id))
        sf = self.index.file_for("bbb", rep.id)
        if rec is None or sf is None or sf.kid is None:
            return
        try:
            root = isobmff.parse(resp.body)
        except isobmff.BoxError:
            return
        moov = root.find(b"moov")
        stored_n = len([b for b in sf.moov.children if b.type == b"pssh"])
        added = [b for b in moov.children if b.type == b"pssh"][stored_n:] if moov is not None else []
        by_system = {}
        for b in added:
            try:
                ps = isobmff.pssh(b)
            except Exception:  # noqa: BLE001
                continue
            name = next((n for n, sid in SYSTEM_IDS.items() if sid == ps.system_id), None)
            if name:
                by_system[name] = (b.raw, ps)
        tmpl = url_parts(doc.url)["path"].split("/")[-1]
        for system, (raw, ps) in by_system.items():
            sim.check("c11-init-vs-manifest")
            subj = f"{tmpl}/{aset.content_type}/{system}"
            same_keys = rec.get("key_epoch") == getattr(resp, "key_epoch", self.key_epoch)   # no key edit in between
            if not same_keys:
                sim.world.probe("c11.skip-compare-across-key-edit")
            m = rec["pssh"].get(system)
            if m is not None and m != raw and same_keys:
                sim.violate("pssh-manifest-vs-init", subj,
                            f"cenc:pssh in the manifest ({len(m)} bytes) differs from the pssh box in the init "
                            f"segment ({len(raw)} bytes) of the same request; {url}")
            if system == "playready":
                self.check_pro(ps.data, sf.kid, url_parts(doc.url)["q"], subj + "/moov", url, resp)
                if rec["pro"] is not None and rec["pro"] != ps.data and same_keys:
                    sim.violate("pro-manifest-vs-init", subj,
                                f"mspr:pro in the manifest differs from the PRO inside the init segment's pssh; {url}")


# ------------------------------------------------------------------------------------------ (a)
class LicenceClient(RoleClient):
    kind = "licence"

    async def run(self) -> None:
        for step in self.script:
            if step["op"] == "sleep":
                await self.sleep_us(int(step["us"]))
                continue
            kids = [b64url(bytes.fromhex(k)) for k in step["kids"]]
            if "raw" in step:
                kids.append(step["raw"])
            body = json.dumps({"kids": kids, "type": "temporary"}).encode()
            try:
                resp = await self.request("POST", BASE + "/clearkey", headers={"Content-Type": "application/json"},
                                          body=body)
            except NetTimeout:
                continue
            self.observer.on_licence(step, kids, resp)


class LicenceOracle:
    """Reference model of the key store: kid -> set of possible keys (None = absent)."""

    def __init__(self, sim: Sim) -> None:
        self.sim = sim
        self.world = sim.world
        self.model: dict[str, set] = {}
        for r in rows(self.world, "key"):
            self.model[r["hkid"].lower()] = {r["hkey"].lower()}
        self.before = None

    def before_delivery(self, msg) -> None:
        if getattr(msg.actor, "kind", "") == "manager":
            self.before = {r["hkid"].lower(): r["hkey"].lower() for r in rows(self.world, "key")}

    def after_delivery(self, msg, resp) -> None:
        # the model follows *acknowledged* management operations; the oracle may look at the durable state
        # only to learn the outcome of an operation whose response was lost or duplicated
        if getattr(msg.actor, "kind", "") == "licence":
            # the answer is judged against the model as it was when the request was served
            resp.model_at_delivery = {k: set(v) for k, v in self.model.items()}
            return
        if getattr(msg.actor, "kind", "") != "manager" or self.before is None:
            return
        after = {r["hkid"].lower(): r["hkey"].lower() for r in rows(self.world, "key")}
        fault = (msg.fault or {}).get("kind") if not msg.is_dup else "dup"
        for kid in set(self.before) | set(after):
            b, a = self.before.get(kid), after.get(kid)
            if b == a:
                continue
            if fault in ("net.drop_resp",):
                self.model[kid] = {b, a}          # unacknowledged: both outcomes possible
            else:
                self.model[kid] = {a}
        self.before = None

    def on_licence(self, step: dict, sent: list[str], resp) -> None:
        sim = self.sim
        sim.check("c11-licence")
        if resp.status >= 500:
            from ..world import exc_site
            sim.violate("licence-5xx", exc_site(resp.exc), f"{resp.status} for kids {sent}")
            return
        try:
            js = resp.json()
        except Exception:  # noqa: BLE001
            sim.violate("licence-not-json", "body", f"status {resp.status}")
            return
        if "raw" in step:
            sim.world.probe("c11.malformed-id")
            if resp.status == 200 and isinstance(js, dict) and js.get("keys"):
                pass
            return
        if resp.status != 200 or not isinstance(js, dict) or "keys" not in js:
            sim.violate("licence-refused", "well-formed", f"status {resp.status} body {str(js)[:200]} for kids {sent}")
            return
        model = getattr(resp, "model_at_delivery", self.model)
        got = {}
        for item in js["keys"]:
            if item.get("kid") in got:
                sim.violate("licence-duplicate-key", "kid", f"{item.get('kid')} listed twice")
            got[item.get("kid")] = item.get("k")
            if item.get("kty") != "oct" or "=" in (item.get("kid") or "") or "=" in (item.get("k") or ""):
                sim.violate("licence-encoding", "item", f"{item}")
        for kid_hex in set(step["kids"]):
            kid64 = b64url(bytes.fromhex(kid_hex))
            poss = model.get(kid_hex.lower(), {None})
            have = got.get(kid64)
            have_hex = None
            if have is not None:
                pad = "=" * (-len(have) % 4)
                have_hex = base64.urlsafe_b64decode(have + pad).hex()
            if have_hex not in {p for p in poss}:
                sim.violate("licence-wrong-key", "known" if None not in poss else "unknown",
                            f"kid {kid_hex}: licence returned {have_hex}, model allows {sorted(str(p) for p in poss)}")
            elif len(poss) > 1 and self.model.get(kid_hex.lower()) == poss:
                self.model[kid_hex.lower()] = {have_hex}      # a read resolves the unacknowledged write
        requested = {b64url(bytes.fromhex(k)) for k in step["kids"]}
        extra = set(got) - requested
        if extra:
            sim.violate("licence-extra-keys", "unrequested", f"{sorted(extra)} returned but not requested")


def execute(spec: dict) -> dict:
    template, timing_refs = mc.world_template(spec["world"])
    simclock.CLOCK.us = spec["t0_us"]
    drm = spec["kind"] == "drm"
    world, info = worlds.instantiate("run", template, secrets_seed=base.sub_seed(spec["seed"], "secrets"),
                                     share_blobs=True)
    try:
        simclock.CLOCK.us = spec["t0_us"]
        sim = Sim(world, spec["sched_seed"])
        actors = []
        if drm:
            oracle = DrmOracle(sim, world)
            sim.after_delivery = oracle.after_delivery
            for a in spec["actors"]:
                if a["kind"] == "manager":
                    actors.append(Manager(sim, a))
                    continue
                p = DrmPlayer(sim, a)
                p.observers = [oracle]
                actors.append(p)
        else:
            oracle = LicenceOracle(sim)
            sim.before_delivery = oracle.before_delivery
            sim.after_delivery = oracle.after_delivery
            for a in spec["actors"]:
                if a["kind"] == "manager":
                    actors.append(Manager(sim, a))
                else:
                    c = LicenceClient(sim, a)
                    c.observer = oracle
                    actors.append(c)
        sim.run(actors)
        nontrivial = bool(sim.checks.get("c11-pro") or sim.checks.get("c11-licence"))
        return base.outcome(ID, spec, sim, world, nontrivial=nontrivial,
                            extra={"sim_seconds": (simclock.CLOCK.us - spec["t0_us"]) / 1e6,
                                   "counters": {f"kind.{spec['kind']}": 1}})
    finally:
        world.destroy()
