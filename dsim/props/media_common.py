"""Shared workload for the media-path properties (C01, C02, C03, C10): live players in frozen mode over
fixture and forged streams, boundary-biased clock placement, interleaved background clients, restarts.
"""
from __future__ import annotations

from fractions import Fraction

from .. import clock as simclock
from .. import optgen, worlds
from ..actors.player import Player
from ..oracles.media import MediaOracle
from ..sim import Sim
from . import base

LIVE_TEMPLATES = ["hand_made.mpd", "manifest_a.mpd", "manifest_e.mpd", "manifest_h.mpd", "manifest_i.mpd",
                  "manifest_n.mpd", "manifest_ef.mpd"]

# forged stream presets: (name, list of forge params, timing ref)
def forge_presets() -> list[dict]:
    presets = []
    # 0: short 1 kHz video, irregular durations, sidx+styp, explicit base offset, non-zero first decode time
    presets.append({"dir": "fza", "title": "forged A", "timing_ref": "fza_v1", "files": [
        {"forge": {"name": "fza_v1", "kind": "video", "timescale": 1000, "first_decode_time": 0,
                   "durations": [1500, 2500, 2000, 1999, 3001], "sidx": True, "styp": True, "base": "explicit"}},
        {"forge": {"name": "fza_a1", "kind": "audio", "timescale": 44100, "tfdt": False,
                   "durations": [88064, 88064, 89088, 88064, 88064, 89088]}},
        {"forge": {"name": "fza_t1", "kind": "text", "timescale": 7, "durations": [70, 7]}},
    ]})
    # 1: very short loop (2 s), timescale 1, plus 90 kHz audio with a different loop length
    presets.append({"dir": "fzb", "title": "forged B", "timing_ref": "fzb_v1", "files": [
        {"forge": {"name": "fzb_v1", "kind": "video", "timescale": 1, "durations": [1, 1]}},
        {"forge": {"name": "fzb_a1", "kind": "audio", "timescale": 90000, "durations": [90000, 45000, 45001]}},
    ]})
    # 2: 10 MHz timescale, long irregular segments, no tfdt on video, tfdt v1 on audio
    presets.append({"dir": "fzc", "title": "forged C", "timing_ref": "fzc_v1", "files": [
        {"forge": {"name": "fzc_v1", "kind": "video", "timescale": 10_000_000, "tfdt": False,
                   "durations": [60_000_000, 20_000_000, 40_000_001, 39_999_999]}},
        {"forge": {"name": "fzc_a1", "kind": "audio", "timescale": 48000, "tfdt_version": 1,
                   "durations": [288000, 96000, 192000, 191999]}},
    ]})
    # 3: non-zero first decode time everywhere, audio longer than video
    presets.append({"dir": "fzd", "title": "forged D", "timing_ref": "fzd_v1", "files": [
        {"forge": {"name": "fzd_v1", "kind": "video", "timescale": 600, "first_decode_time": 1234,
                   "durations": [1200, 1200, 1200, 600]}},
        {"forge": {"name": "fzd_a1", "kind": "audio", "timescale": 1000, "first_decode_time": 500,
                   "durations": [2000, 2000, 2000, 1500]}},
    ]})
    # 4: a fractional total duration (9.537 s) and segments whose mfhd sequence numbers do not start at 1 (video 5.., audio 3..)
    presets.append({"dir": "fze", "title": "forged E", "timing_ref": "fze_v1", "files": [
        {"forge": {"name": "fze_v1", "kind": "video", "timescale": 1000, "start_number": 5,
                   "durations": [2000, 2000, 2000, 2000, 1537]}},
        {"forge": {"name": "fze_a1", "kind": "audio", "timescale": 48000, "start_number": 3,
                   "durations": [96000, 96000, 96000, 96000, 73776]}},
    ]})
    return presets


def world_template(spec_world: dict) -> tuple[dict, dict]:
    streams = []
    timing_refs = {}
    presets = forge_presets()
    for s in spec_world["streams"]:
        if s.startswith("fz"):
            p = next(x for x in presets if x["dir"] == s)
            streams.append(p)
            timing_refs[s] = p["timing_ref"]
        else:
            st = worlds.std_stream(s)
            streams.append(st)
            timing_refs[s] = st["timing_ref"]
    for sdir, name in (spec_world.get("timing_refs") or {}).items():
        # another file of the stream is its timing reference (the statement of C02 quantifies over that choice)
        streams = [dict(st, timing_ref=name) if st["dir"] == sdir else st for st in streams]
        timing_refs[sdir] = name
    if spec_world.get("defaults"):
        # stored per-stream option defaults (set through the stream-defaults form of the management UI)
        streams = [dict(st, defaults=spec_world["defaults"][st["dir"]]) if st["dir"] in spec_world["defaults"] else st
                   for st in streams]
    return {"streams": streams}, timing_refs


SEG_SECONDS = [Fraction(4), Fraction(10), Fraction(176128, 44100), Fraction(177152, 44100), Fraction(40),
               Fraction(96256, 48000), Fraction(2), Fraction(1), Fraction(3, 2), Fraction(11), Fraction(7)]

T0_CHOICES = [
    "2024-01-01T00:00:30Z", "2024-02-29T23:59:58.999999Z", "2024-12-31T23:59:00Z",
    "2025-06-15T12:00:00Z", "2031-03-01T00:00:59.5Z", "2031-07-04T03:17:11.123456Z", "2038-01-19T03:14:00Z",
    "2027-11-30T23:58:57Z", "2026-09-26T10:00:00Z", "2045-05-05T05:05:05Z",
]


def explicit_ast_us(q: dict) -> int | None:
    st = q.get("start")
    if st == "epoch":
        return 0
    if st and st[0].isdigit():
        try:
            from ..oracles.mpd import parse_datetime_us
            return parse_datetime_us(st)
        except Exception:  # noqa: BLE001
            return None
    return None


def boundary_time(rng, now_us: int, ast_us: int) -> int:
    """An instant >= now close to a segment/loop boundary counted from AST."""
    d = rng.choice(SEG_SECONDS)
    d_us = Fraction(d) * 1_000_000
    k = int((now_us - ast_us) / d_us) + rng.randrange(1, 40)
    eps = rng.choice([-1, 0, 1, -1000, 1000, int(d_us / 2), -int(d_us / 2), 0, 0])
    t = ast_us + int(k * d_us) + eps
    return max(t, now_us)


def gen_player(rng, pid: str, t0: int, streams: list[str], *, templates: list[str], wakeups: tuple[int, int],
               select: list[str], seg_cap: int, richness: float, extra_force: dict | None = None,
               young_ok: bool = True, encrypted_ok: bool = True, events_ok: bool = True) -> dict:
    stream = rng.choice(streams)
    manifest = rng.choice(templates)
    force = dict(extra_force or {})
    q = optgen.live_vector(rng, t0, manifest, richness=richness, encrypted_ok=(stream == "bbb" and encrypted_ok),
                           young_ok=young_ok, events_ok=events_ok, patch_ok=False, force=force)
    script = []
    now = t0
    ast = explicit_ast_us(q)
    for k in range(rng.randrange(wakeups[0], wakeups[1] + 1)):
        r = rng.random()
        if k > 0 or r < 0.5:
            if ast is not None and ast < now and rng.random() < 0.6:
                target = boundary_time(rng, now, ast)
                script.append({"op": "goto", "us": target})
                now = target
            else:
                gap = rng.choice([1000, 500_000, 1_000_000, 3_999_999, 4_000_000, 8_000_001, 40_000_000,
                                  rng.randrange(1, 120_000_000), 3600_000_000, 86400_000_000])
                script.append({"op": "jump", "us": gap})
                now += gap
        script.append({"op": "manifest", "path": f"/dash/live/{stream}/{manifest}", "q": q})
        script.append({"op": "segments", "select": rng.choice(select), "max": seg_cap})
    return {"id": pid, "kind": "player", "prng": rng.getrandbits(32),
            "latency": {"min_us": 0, "jitter_us": 0}, "script": script}


def add_twin_requests(rng, actors: list[dict], streams: list[str], with_defaults: str) -> None:
    """One observer asks for the same manifest, with the very same query, first from the stream that carries stored
    defaults and then from another stream, at the same instant: the media URLs of both carry equal query strings
    that mean different things, and whatever the server remembers of the first must not leak into the second."""
    others = [s for s in streams if s != with_defaults]
    if not others or not actors or rng.random() >= 0.7:
        return
    other = rng.choice(others)
    a = actors[0]
    if any(k in st.get("q", {}) for st in a["script"] for k in ("drm", "events")):
        return
    out = []
    for i, st in enumerate(a["script"]):
        if st["op"] == "manifest":
            nxt = a["script"][i + 1] if i + 1 < len(a["script"]) and a["script"][i + 1]["op"] == "segments" else None
            parts = st["path"].split("/")
            for stream in (with_defaults, other):
                parts[3] = stream
                out.append({**st, "path": "/".join(parts)})
                if nxt is not None:
                    out.append(dict(nxt))
        elif st["op"] == "segments" and out and out[-1]["op"] == "segments":
            continue
        else:
            out.append(st)
    a["script"] = out


def generate_live(prop: str, seed: int, tier: str, index: int, *, templates=None, richness=0.5,
                  wakeups=(2, 5), seg_cap=60, select=None, extra_force=None, young_ok=True,
                  encrypted_ok=True, events_ok=True, forge_p=0.45) -> dict:
    rng = base.rng_for(seed, "gen")
    t0 = simclock.SimClock.parse(rng.choice(T0_CHOICES)) + rng.choice([0, 0, 1, 500_000, 999_999])
    if rng.random() < 0.3:
        t0 += rng.randrange(0, 86_400_000_000)
    use_forge = rng.random() < forge_p
    if use_forge:
        streams = [rng.choice(["fza", "fzb", "fzc", "fzd", "fze"])]
        if rng.random() < 0.3:
            streams.append("bbb")
    else:
        streams = rng.choice([["bbb"], ["bbb"], ["tears"], ["bbb", "tears"]])
    templates = templates or LIVE_TEMPLATES
    select = select or ["all", "edges", "sample"]
    actors = []
    n_obs = rng.choice([1, 1, 2, 3])
    for i in range(n_obs):
        actors.append(gen_player(rng, f"obs{i + 1}", t0, streams, templates=templates, wakeups=wakeups,
                                 select=select, seg_cap=seg_cap, richness=richness, extra_force=extra_force,
                                 young_ok=young_ok, encrypted_ok=encrypted_ok, events_ok=events_ok))
    if rng.random() < 0.4:
        script = []
        for _ in range(rng.randrange(1, 3)):
            script.append({"op": "sleep", "us": rng.randrange(0, 3_000_000)})
            script.append({"op": "restart"})
        actors.append({"id": "chaos", "kind": "player", "prng": 0, "script": script})
    world = {"streams": streams}
    ALT_REFS = {"bbb": ["bbb_a1", "bbb_v6"], "tears": ["tears_a1"], "fza": ["fza_a1"], "fzc": ["fzc_a1"],
                "fzd": ["fzd_a1"], "fze": ["fze_a1"]}
    if rng.random() < 0.15 and streams[0] in ALT_REFS:
        world["timing_refs"] = {streams[0]: rng.choice(ALT_REFS[streams[0]])}
    if rng.random() < 0.25:
        # one stream carries stored option defaults (its URLs omit values equal to them; every endpoint must apply
        # them - and only to that stream)
        world["defaults"] = {rng.choice(streams): rng.choice([{"depth": "30"}, {"depth": "40", "mup": "4"}])}
        add_twin_requests(base.rng_for(seed, "gen-twin"), actors, streams, next(iter(world["defaults"])))
    return {
        "property": prop, "seed": seed, "index": index, "tier": tier, "hashseed": index % base.HASHSEEDS,
        "t0_us": t0, "sched_seed": rng.getrandbits(32),
        "world": world,
        "actors": actors,
    }


def execute_live(prop: str, spec: dict, rules: set[str], nontrivial_keys: tuple[str, ...],
                 share_blobs: bool = True, extra_observers=None, finish=None) -> dict:
    template, timing_refs = world_template(spec["world"])
    simclock.CLOCK.us = spec["t0_us"]
    world, info = worlds.instantiate("run", template, secrets_seed=base.sub_seed(spec["seed"], "secrets"),
                                     share_blobs=share_blobs)
    try:
        simclock.CLOCK.us = spec["t0_us"]
        sim = Sim(world, spec["sched_seed"])
        oracle = MediaOracle(sim, world, rules, timing_refs=timing_refs,
                             judge=lambda a: a.id.startswith("obs"))
        oracle.alt_refs = set((spec["world"].get("timing_refs") or {}).keys())
        actors = []
        extra = list(extra_observers(sim, world)) if extra_observers else []
        for a in spec["actors"]:
            p = Player(sim, a)
            p.observers = [oracle] + extra
            actors.append(p)
        sim.run(actors)
        if finish is not None:
            finish()
        nontrivial = any(sim.checks.get(k) for k in nontrivial_keys)
        return base.outcome(prop, spec, sim, world, nontrivial=nontrivial,
                            extra={"sim_seconds": (simclock.CLOCK.us - spec["t0_us"]) / 1e6})
    finally:
        world.destroy()


def add_static_sessions(spec: dict, seed: int, media: bool) -> None:
    """Every observer also asks for static manifests of its stream - before, between and after its live sessions
    (the order matters for anything the server keeps between requests).  ``media``: fetch the media segments a static
    manifest enumerates, not only its initialization segments."""
    from . import c06
    rng = base.rng_for(seed, "gen-vod")
    for a in spec["actors"]:
        if not a["id"].startswith("obs"):
            continue
        first = next((s for s in a["script"] if s["op"] == "manifest"), None)
        if first is None:
            continue
        if media:
            a["static_media"] = True
        stream = first["path"].split("/")[3]
        for _ in range(rng.choice([1, 2, 2, 3])):
            manifest = rng.choice([m for m, mode in c06.VOD_TEMPLATES if mode == "vod"])
            q = c06.vod_vector(rng, manifest, "vod", encrypted_ok=(stream == "bbb"))
            if stream == "bbb" and rng.random() < 0.5:
                q["drm"] = optgen.gen_drm(rng)
            pos = rng.choice([0, len(a["script"]), rng.randrange(0, len(a["script"]) + 1)])
            # never split a manifest from the segments step that follows it
            while 0 < pos < len(a["script"]) and a["script"][pos]["op"] == "segments":
                pos += 1
            a["script"][pos:pos] = [{"op": "manifest", "path": f"/dash/vod/{stream}/{manifest}", "q": q},
                                    {"op": "segments", "select": "edges", "max": 12}]
