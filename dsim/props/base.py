"""Common machinery for property modules.

A property module exposes:
  ID: str; LEVEL: "exploration" | "fault_enumeration"
  budget(tier) -> {"runs": int, "wall_s": float}
  generate(seed: int, tier: str, index: int) -> spec (JSON-able dict)
  execute(spec) -> Outcome dict   (see run_spec)
"""
from __future__ import annotations

import hashlib
import json
import random
import traceback

from .. import clock as simclock
from ..sim import Sim
from ..world import HarnessError, World

HASHSEEDS = 4


def run_seed(prop: str, verif_seed: int, index: int) -> int:
    h = hashlib.blake2b(f"{prop}:{verif_seed}:{index}".encode(), digest_size=8).digest()
    return int.from_bytes(h, "big")


def sub_seed(seed: int, label: str) -> int:
    h = hashlib.blake2b(f"{seed}:{label}".encode(), digest_size=8).digest()
    return int.from_bytes(h, "big")


def rng_for(seed: int, label: str) -> random.Random:
    return random.Random(sub_seed(seed, label))


def signature(prop: str, v: dict) -> str:
    return f"{prop}.{v['rule']}/{v['subject']}"


def abstract_trace(world: World) -> str:
    """Hash of the sequence of (actor, endpoint shape, status class, fault) — the 'interleaving' measure."""
    from ..sim import _endpoint_of
    h = hashlib.sha1()
    for rec in world.trace:
        h.update(f"{rec.actor}|{rec.method}|{_endpoint_of(rec.target)}|{rec.status // 100}|{rec.fault or ''}\n".encode())
    return h.hexdigest()[:16]


def outcome(prop: str, spec: dict, sim: Sim | None, world: World | None, *, nontrivial: bool,
            extra: dict | None = None, harness_error: str | None = None) -> dict:
    out = {
        "property": prop,
        "seed": spec.get("seed"),
        "index": spec.get("index"),
        "violations": [],
        "harness_error": harness_error,
        "nontrivial": bool(nontrivial),
    }
    if sim is not None:
        vs = []
        seen = set()
        for v in sim.violations:
            sig = signature(prop, v)
            v = dict(v)
            v["signature"] = sig
            if sig in seen and len(vs) > 20:
                continue
            seen.add(sig)
            vs.append(v)
        out["violations"] = vs
        out["checks"] = dict(sim.checks)
        out["bigrams"] = sorted(f"{a}>{b}" for a, b in sim.net.bigrams)
    if world is not None:
        out.update({
            "requests": world.requests,
            "events": world.seq,
            "digest": world.digest(),
            "abstract": abstract_trace(world),
            "faults_fired": dict(world.faults_fired),
            "probes": dict(world.probes),
            "restarts": world.restarts,
            "globals_reset": dict(world.globals_reset),
            "unhandled": [e[2] for e in world.exceptions][:5],
        })
    if extra:
        out.update(extra)
    return out


def safe_execute(mod, spec: dict) -> dict:
    """Run a property's execute(); classify anything unexpected as a harness error."""
    try:
        return mod.execute(spec)
    except HarnessError as err:
        return {"property": mod.ID, "seed": spec.get("seed"), "index": spec.get("index"), "violations": [],
                "harness_error": f"HarnessError: {err}", "nontrivial": False}
    except Exception:  # noqa: BLE001
        return {"property": mod.ID, "seed": spec.get("seed"), "index": spec.get("index"), "violations": [],
                "harness_error": traceback.format_exc()[-3000:], "nontrivial": False}


def spec_digest(spec: dict) -> str:
    return hashlib.sha1(json.dumps(spec, sort_keys=True).encode()).hexdigest()[:12]
