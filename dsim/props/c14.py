"""C14 — timed events are delivered exactly once and decode to their schedule.

Players follow a video Representation over runs of consecutive segments (vod: the whole track; live: the
whole availability window, placed so that it crosses a loop of the source) with event schedules from the
swarm; duplicated requests (net.dup) and overlapping refreshes make sure "exactly once" is judged per
segment of the run, not per fetch.  History oracle over the run; every SCTE-35 payload seen in flight
(emsg data, manifest base64) is decoded by an independent bit reader.
"""
from __future__ import annotations

import base64
import urllib.parse
from fractions import Fraction

from .. import clock as simclock
from .. import optgen
from ..oracles import isobmff, scte35
from ..oracles.media import url_parts
from . import base
from . import media_common as mc

ID = "C14"
LEVEL = "exploration"
SCHEMES = {"ping": "urn:dash-live:pingpong:2022", "scte35": "urn:scte:scte35:2014:xml+bin"}
DEFAULTS = {"count": 0, "duration": 200, "inband": True, "interval": 1000, "start": 0, "timescale": 100, "version": 0}


def budget(tier: str) -> dict:
    return {"runs": 330, "wall_s": 80} if tier == "quick" else {"runs": 8000, "wall_s": 840}


def generate(seed: int, tier: str, index: int) -> dict:
    rng = base.rng_for(seed, "events")
    kinds = rng.choice([["ping"], ["scte35"], ["ping", "scte35"]])
    force = optgen.gen_event_opts(rng, kinds)
    for k in kinds:
        if rng.random() < 0.75:
            force[f"{k}__inband"] = "1"
    force["depth"] = str(rng.choice([12, 20, 30, 45]))
    if rng.random() < 0.5:
        force["timeline"] = rng.choice(["0", "1"])
    spec = mc.generate_live(ID, seed, tier, index, templates=["hand_made.mpd", "hand_made.mpd", "manifest_n.mpd"],
                            richness=0.15, wakeups=(1, 3), seg_cap=90, select=["all"], extra_force=force,
                            young_ok=False, encrypted_ok=False, events_ok=False, forge_p=0.5)
    # the other observers keep the event instants (start, interval, timescale) but half of them ask for another
    # duration and count: whatever the server remembers about an event must not travel between clients
    rng3 = base.rng_for(seed, "perturb")
    for a in [x for x in spec["actors"] if x["id"].startswith("obs")][1:]:
        if rng3.random() < 0.5:
            for st in a["script"]:
                if st["op"] != "manifest":
                    continue
                for k in kinds:
                    cur = st["q"].get(f"{k}__duration")
                    st["q"][f"{k}__duration"] = str((int(cur) if cur and cur.isdigit() else 200) + 37)
                    cur = st["q"].get(f"{k}__count")
                    st["q"][f"{k}__count"] = str((int(cur) if cur and cur.isdigit() else 0) + 3)
    # vod walks: same option vector, static mode (the whole track is one run)
    rng2 = base.rng_for(seed, "vod")
    for a in spec["actors"]:
        if a["id"].startswith("obs") and rng2.random() < 0.35:
            a["static_media"] = True
            for st in a["script"]:
                if st["op"] == "manifest":
                    st["path"] = st["path"].replace("/dash/live/", "/dash/vod/")
                    for key in ("depth", "start", "mup", "leeway", "patch", "time"):
                        st["q"].pop(key, None)
        if a["id"].startswith("obs") and rng2.random() < 0.3:
            a["faults"] = [{"msg": rng2.randrange(3, 20), "kind": "net.dup"}]
    return spec


def schedule_from_query(q: dict, kind: str) -> dict:
    """The documented meaning of the <kind>__* options (own reading, no dashlive code)."""
    out = dict(DEFAULTS)
    for key in list(out):
        raw = q.get(f"{kind}__{key}")
        if raw is None or raw == "":
            continue
        if key == "inband":
            out[key] = raw.lower() in ("1", "true", "on")
        else:
            try:
                out[key] = int(raw)
            except ValueError:
                pass
    if kind == "scte35" and out["inband"]:
        out["version"] = 1
    return out


class Oracle:
    def __init__(self, sim, world) -> None:
        self.sim = sim
        self.world = world
        # (actor, manifest url, fetched, rep id) -> list of (seg start, seg end, timescale, emsgs, url)
        self.runs: dict[tuple, list] = {}

    # ------------------------------------------------------------------ manifest: out-of-band schedule
    def on_manifest(self, actor, doc, prev) -> None:
        sim = self.sim
        if not actor.id.startswith("obs") or doc.mpd is None:
            return
        q = url_parts(doc.url)["q"]
        kinds = [k for k in (q.get("events") or "").split(",") if k in SCHEMES]
        ns = "{urn:mpeg:dash:schema:mpd:2011}"
        for kind in kinds:
            sch = schedule_from_query(q, kind)
            streams = [e for e in doc.mpd.root.iter(ns + "EventStream") if e.attrib.get("schemeIdUri") == SCHEMES[kind]]
            inband = [e for e in doc.mpd.root.iter(ns + "InbandEventStream") if e.attrib.get("schemeIdUri") == SCHEMES[kind]]
            subj = f"{kind}/{'inband' if sch['inband'] else 'outofband'}"
            sim.check("c14-manifest-signalling")
            if sch["inband"]:
                if not inband:
                    sim.world.probe("c14.inband-not-signalled")     # signalling is outside the statement
                continue
            if not streams:
                sim.violate("eventstream-missing", subj, f"no EventStream for {SCHEMES[kind]}; {doc.url}")
                continue
            es = streams[0]
            if int(es.attrib.get("timescale", "1")) != sch["timescale"]:
                sim.violate("eventstream-timescale", subj, f"{es.attrib.get('timescale')} != {sch['timescale']}; {doc.url}")
            events = es.findall(ns + "Event")
            if sch["count"] == 0:
                # unbounded schedule: the manifest lists the events of the time span it describes - the time-shift
                # window of a dynamic MPD, the whole presentation of a static one
                sim.world.probe("c14.outofband-unbounded")
                sim.check("c14-outofband-schedule")
                m = doc.mpd
                ts = sch["timescale"]
                if m.type == "dynamic" and m.ast_us is not None:
                    hi = Fraction(doc.fetched_us - m.ast_us, 1_000_000)
                    q = dict(urllib.parse.parse_qsl(urllib.parse.urlsplit(doc.url).query))
                    if q.get("drift", "0").lstrip("-").isdigit():
                        hi -= int(q.get("drift", "0"))
                    lo = max(Fraction(0), hi - (m.tsbd or 0))
                else:
                    total = m.mpd_duration if m.mpd_duration is not None else sum((p.duration or 0) for p in m.periods)
                    lo, hi = Fraction(0), Fraction(total)
                got = {}
                for ev in events:
                    try:
                        got[int(ev.attrib["id"])] = int(ev.attrib["presentationTime"])
                    except (KeyError, ValueError):
                        sim.violate("outofband-event-attributes", subj, f"{dict(ev.attrib)}; {doc.url}")
                off = [(k, t) for k, t in got.items() if t != sch["start"] + k * sch["interval"]]
                if off:
                    sim.violate("outofband-schedule", f"{subj}/unbounded",
                                f"listed events {off[:4]} are not on the schedule start+k*interval; {doc.url}")
                tol = Fraction(1, ts) + Fraction(1, 1000)
                k0 = max(0, -((-(int((lo + tol) * ts) - sch["start"])) // sch["interval"]))
                missing = []
                k = k0
                while Fraction(sch["start"] + k * sch["interval"], ts) < hi - tol and len(missing) < 4 and k < k0 + 5000:
                    if Fraction(sch["start"] + k * sch["interval"], ts) > lo + tol and k not in got:
                        missing.append(k)
                    k += 1
                if missing:
                    sim.violate("outofband-schedule", f"{subj}/unbounded",
                                f"events {missing} fall inside the span [{float(lo):.3f}, {float(hi):.3f}) s this manifest "
                                f"describes but are not listed ({len(got)} listed); {doc.url}")
                continue
            sim.check("c14-outofband-schedule")
            want = [(k, sch["start"] + k * sch["interval"]) for k in range(sch["count"])]
            got = []
            for ev in events:
                try:
                    got.append((int(ev.attrib["id"]), int(ev.attrib["presentationTime"])))
                except (KeyError, ValueError):
                    sim.violate("outofband-event-attributes", subj, f"{dict(ev.attrib)}; {doc.url}")
            if got != want:
                sim.violate("outofband-schedule", subj, f"manifest lists {got[:6]}..., schedule is {want[:6]}...; {doc.url}")
            for ev in events:
                if int(ev.attrib.get("duration", "-1")) != sch["duration"]:
                    sim.violate("outofband-duration", subj, f"{ev.attrib.get('duration')} != {sch['duration']}; {doc.url}")
                    break
            if kind == "scte35":
                for ev in events:
                    bins = [x for x in ev.iter() if isinstance(x.tag, str) and x.tag.endswith("}Binary")]
                    if not bins:
                        sim.violate("scte35-binary-missing", subj, f"event {ev.attrib.get('id')}; {doc.url}")
                        break
                    try:
                        raw = base64.b64decode((bins[0].text or "").strip(), validate=True)
                    except Exception as err:  # noqa: BLE001
                        sim.violate("scte35-base64", subj, f"{err}; {doc.url}")
                        break
                    self.check_scte35(raw, int(ev.attrib["id"]), int(ev.attrib["presentationTime"]), sch, subj, doc.url)

    def check_scte35(self, raw: bytes, k: int, pt: int, sch: dict, subj: str, where: str) -> None:
        sim = self.sim
        sim.check("c14-scte35")
        try:
            si = scte35.parse(raw)
        except (scte35.Scte35Error, IndexError) as err:
            sim.violate("scte35-malformed", subj, f"{err}; {where}")
            return
        if not si.crc_ok:
            sim.violate("scte35-crc", subj, f"CRC-32 mismatch; {where}")
        if si.command_type != 5:
            sim.violate("scte35-command", subj, f"command type {si.command_type}; {where}")
            return
        if si.event_id != (k & 0xFFFFFFFF):
            sim.violate("scte35-event-id", subj, f"splice_event_id {si.event_id}, event {k}; {where}")
        want_pts = (pt * 90000 // sch["timescale"]) & 0x1FFFFFFFF
        if si.pts is None or abs(si.pts - want_pts) > max(1, 90000 // sch["timescale"]):
            sim.violate("scte35-pts", subj, f"pts {si.pts}, expected {want_pts} (presentation time {pt}/{sch['timescale']}); {where}")
        want_dur = sch["duration"] * 90000 // sch["timescale"]
        if si.break_duration is None or abs(si.break_duration - want_dur) > max(1, 90000 // sch["timescale"]):
            sim.violate("scte35-break-duration", subj, f"break duration {si.break_duration}, expected {want_dur}; {where}")

    # ------------------------------------------------------------------ segments: collect runs
    def on_segment(self, actor, ref, resp) -> None:
        if not actor.id.startswith("obs") or ref.kind == "init" or resp.status != 200:
            return
        if (ref.aset.content_type or "") != "video":
            return
        try:
            seg = isobmff.media_segment(resp.body)
        except Exception:  # noqa: BLE001
            return
        if seg.tfdt is None:
            return
        key = (actor.id, ref.doc.url, ref.doc.fetched_us, ref.rep.id)
        dur = seg.total_duration()
        if dur is None:
            return
        self.runs.setdefault(key, []).append({
            "start": seg.tfdt[1], "end": seg.tfdt[1] + dur, "ts": ref.rep.template.timescale,
            "emsgs": seg.emsgs, "url": ref.url, "index": ref.index, "dup": bool(resp.fault == "dup")})

    # ------------------------------------------------------------------ history oracle
    def finish(self) -> None:
        sim = self.sim
        for (actor_id, murl, fetched, rep_id), segs in sorted(self.runs.items(), key=lambda kv: repr(kv[0])):
            q = url_parts(murl)["q"]
            kinds = [k for k in (q.get("events") or "").split(",") if k in SCHEMES]
            # de-duplicate by segment start (a duplicated or repeated fetch is the same segment)
            uniq = {}
            for s in segs:
                uniq.setdefault(s["start"], s)
            run = [uniq[k] for k in sorted(uniq)]
            # keep the longest consecutive stretch
            best, cur = [], []
            for s in run:
                if cur and cur[-1]["end"] != s["start"]:
                    if len(cur) > len(best):
                        best = cur
                    cur = []
                cur.append(s)
            if len(cur) > len(best):
                best = cur
            if len(best) < 2:
                continue
            mts = best[0]["ts"]
            for kind in kinds:
                sch = schedule_from_query(q, kind)
                subj = f"{kind}/v{sch['version']}"
                mode = url_parts(murl).get("mode")
                ets = sch["timescale"]
                if ets <= 0 or sch["interval"] <= 0:
                    continue
                tol = max(Fraction(1, ets), Fraction(1, mts))
                run_lo, run_hi = Fraction(best[0]["start"], mts), Fraction(best[-1]["end"], mts)
                got: dict[int, list] = {}
                for s in best:
                    for em in s["emsgs"]:
                        if em.scheme != SCHEMES[kind]:
                            continue
                        got.setdefault(em.id, []).append((s, em))
                if not sch["inband"]:
                    sim.check("c14-no-inband-when-outofband")
                    if got:
                        sim.violate("emsg-when-out-of-band", subj, f"{len(got)} emsg ids in segments although inband=0; {murl}")
                    continue
                sim.check("c14-run")
                sim.world.probe("c14.run-segments", len(best))
                # expected ids
                k_lo = max(0, int((run_lo * ets - sch["start"]) / sch["interval"]) - 1)
                must, may = set(), set()
                k = k_lo
                while True:
                    if sch["count"] and k >= sch["count"]:
                        break
                    e = Fraction(sch["start"] + k * sch["interval"], ets)
                    if e >= run_hi + tol:
                        break
                    if run_lo + tol <= e < run_hi - tol:
                        must.add(k)
                    elif run_lo - tol <= e < run_hi + tol:
                        may.add(k)
                    k += 1
                    if k - k_lo > 200000:
                        break
                ids = {i for i in got}
                wrap = {m & 0xFFFFFFFF: m for m in must | may}
                missing = [m for m in sorted(must) if (m & 0xFFFFFFFF) not in ids]
                extra = [i for i in sorted(ids) if i not in wrap]
                if missing:
                    sim.violate("event-missing", f"{subj}/{mode}",
                                f"events {missing[:8]} of the schedule {sch} fall inside the run "
                                f"[{float(run_lo):.3f}, {float(run_hi):.3f}) of {rep_id} but no emsg carries them; {murl}")
                if extra:
                    sim.violate("event-unscheduled", f"{subj}/{mode}",
                                f"emsg ids {extra[:8]} are not scheduled inside the run "
                                f"[{float(run_lo):.3f}, {float(run_hi):.3f}) (schedule {sch}); {murl}")
                for i, lst in sorted(got.items()):
                    if i not in wrap:
                        continue
                    kk = wrap[i]
                    e = Fraction(sch["start"] + kk * sch["interval"], ets)
                    if len(lst) > 1:
                        sim.violate("event-duplicated", f"{subj}/{mode}",
                                    f"event {kk} carried by {len(lst)} segments {[s['url'][-40:] for s, _ in lst]}; {murl}")
                    s, em = lst[0]
                    lo, hi = Fraction(s["start"], mts), Fraction(s["end"], mts)
                    sim.check("c14-emsg")
                    if not (lo - tol <= e < hi + tol):
                        sim.violate("event-in-wrong-segment", f"{subj}/{mode}",
                                    f"event {kk} at {float(e):.4f}s carried by segment [{float(lo):.4f}, {float(hi):.4f}); {s['url']}")
                    if em.timescale != ets:
                        sim.violate("emsg-timescale", subj, f"{em.timescale} != {ets}; {s['url']}")
                    if em.version != sch["version"]:
                        sim.violate("emsg-version", subj, f"emsg v{em.version}, requested v{sch['version']}; {s['url']}")
                    if em.version == 1:
                        inst = Fraction(em.presentation_time, em.timescale or 1)
                    else:
                        inst = lo + Fraction(em.presentation_time_delta, em.timescale or 1)
                    if abs(inst - e) > tol:
                        sim.violate("emsg-time", f"{subj}/{mode}",
                                    f"event {kk} scheduled at {float(e):.5f}s resolves to {float(inst):.5f}s "
                                    f"(tolerance {float(tol):.5f}); {s['url']}")
                    if em.duration != sch["duration"]:
                        sim.violate("emsg-duration", subj, f"{em.duration} != {sch['duration']}; {s['url']}")
                    if kind == "scte35":
                        self.check_scte35(em.data, kk, sch["start"] + kk * sch["interval"], sch, subj, s["url"])
                    elif em.data not in (b"ping", b"pong") or em.data != (b"ping" if kk % 2 == 0 else b"pong"):
                        sim.violate("ping-payload", subj, f"event {kk} payload {em.data[:12]!r}; {s['url']}")


def execute(spec: dict) -> dict:
    holder = {}

    def make(sim, world):
        holder["o"] = Oracle(sim, world)
        return [holder["o"]]
    return mc.execute_live(ID, spec, set(), ("c14-run", "c14-outofband-schedule"), extra_observers=make,
                           finish=lambda: holder["o"].finish())
