"""C06 — static manifests describe the stored media completely and exactly.

VodPlayer actors walk vod / odvod manifests of every template that supports them, over fixture and forged
streams, while live clients on the same stream, clock jumps and restarts are interleaved (all of which must
be irrelevant to a static presentation).
"""
from __future__ import annotations

import urllib.parse
from fractions import Fraction

from .. import clock as simclock
from .. import optgen, worlds
from ..actors.player import Player
from ..actors.vodplayer import VodPlayer
from ..oracles import isobmff
from ..oracles.media import StoredIndex, url_parts
from ..sim import Sim
from . import base
from . import media_common as mc

ID = "C06"
LEVEL = "exploration"
VOD_TEMPLATES = [("hand_made.mpd", "vod"), ("hand_made.mpd", "odvod"), ("manifest_vod_aiv.mpd", "odvod"),
                 ("manifest_a.mpd", "vod"), ("manifest_b.mpd", "vod"), ("manifest_e.mpd", "vod"),
                 ("manifest_h.mpd", "vod"), ("manifest_i.mpd", "vod"), ("manifest_ef.mpd", "vod"),
                 ("manifest_n.mpd", "vod")]


def budget(tier: str) -> dict:
    return {"runs": 320, "wall_s": 70} if tier == "quick" else {"runs": 10000, "wall_s": 840}


def vod_vector(rng, manifest: str, mode: str, encrypted_ok: bool) -> dict:
    from dashlive.server.manifests import manifest_map
    mft = manifest_map[manifest]
    q: dict[str, str] = {}
    if "segmentTimeline" in mft.features and not mft.segment_timeline and rng.random() < 0.5:
        q["timeline"] = "1"
    if rng.random() < 0.3:
        q["abr"] = rng.choice(["0", "1"])
    if rng.random() < 0.3:
        q["base"] = rng.choice(["0", "1"])
    if "audioCodec" in mft.features and rng.random() < 0.2:
        q["acodec"] = rng.choice(["mp4a", "any"])
    if encrypted_ok and "drmSelection" in mft.features and mft.restrictions.get("drm") != {"none"} and rng.random() < 0.25:
        q["drm"] = optgen.gen_drm(rng, allow_moov=(mode != "odvod"))
    if "eventTypes" in mft.features and rng.random() < 0.15:
        q.update(optgen.gen_event_opts(rng, [rng.choice(["ping", "scte35"])]))
    if rng.random() < 0.1:
        q["start"] = rng.choice(["epoch", "now"])      # live-only options must be irrelevant
    if rng.random() < 0.1:
        q["depth"] = "20"
    return q


def generate(seed: int, tier: str, index: int, prop: str = ID, range_steps: bool = False) -> dict:
    rng = base.rng_for(seed, "gen")
    t0 = simclock.SimClock.parse(rng.choice(mc.T0_CHOICES)) + rng.randrange(0, 1_000_000)
    streams = [rng.choice(["bbb", "tears", "fza", "fzb", "fzc", "fzd", "fze", "bbb"])]
    actors = []
    for i in range(rng.choice([1, 1, 2])):
        manifest, mode = rng.choice(VOD_TEMPLATES)
        stream = streams[0]
        q = vod_vector(rng, manifest, mode, encrypted_ok=(stream == "bbb"))
        script = [{"op": "manifest", "path": f"/dash/{mode}/{stream}/{manifest}", "q": q}]
        if rng.random() < 0.3:
            script.append({"op": "jump", "us": rng.choice([1, 4_000_000, 86_400_000_000, 40_000_000])})
        if range_steps:
            script.append({"op": "ranges", "urls": rng.choice([1, 2]), "templates": rng.sample(RANGE_TEMPLATES, 8),
                           "headers": rng.sample(MALFORMED, 4),
                           "resume_at": [rng.choice([0, 1, 7, 8, 100, 10 ** 6, 2 ** 31])for _ in range(2)]})
        else:
            script.append({"op": "walk", "reps": rng.choice([1, 2, 3])})
        actors.append({"id": f"obs{i + 1}", "kind": "vodplayer", "prng": rng.getrandbits(32),
                       "latency": {"min_us": rng.choice([0, 1000]), "jitter_us": rng.choice([0, 0, 200_000])},
                       "script": script})
    if not range_steps and streams[0].startswith("fz") and rng.random() < 0.35:
        # history: a manager replaces one file of the stream (same name, other segment layout) between two walks of
        # the same manifest; the second walk must describe the file that is stored now
        preset = next(p for p in mc.forge_presets() if p["dir"] == streams[0])
        victims = [f["forge"] for f in preset["files"] if f["forge"]["name"] != preset["timing_ref"]]
        if victims:
            old = rng.choice(victims)
            durs = list(old["durations"])
            # same name, same total duration and segment count, other segment boundaries and payloads
            if len(durs) >= 2 and durs[0] != durs[1]:
                durs[0], durs[1] = durs[1], durs[0]
            elif len(durs) >= 2 and durs[1] > 1:
                durs[0], durs[1] = durs[0] + 1, durs[1] - 1
            new_file = dict(old, durations=durs, sample_size=int(old.get("sample_size", 24)) + 8)
            first = actors[0]["script"]
            actors[0]["script"] = first + [{"op": "sleep", "us": 2_000_000}] + [dict(s) for s in first if s["op"] != "jump"]
            actors.append({"id": "mgr", "kind": "manager", "role": "media", "prng": rng.getrandbits(32),
                           "latency": {"min_us": 1000, "jitter_us": 0},
                           "script": [{"op": "auth"}, {"op": "sleep", "us": 1_000_000},
                                      {"op": "upload", "which": 0, "file": {"forge": new_file}},
                                      {"op": "index", "which_file": -1}]})
    if rng.random() < 0.4:
        manifest = rng.choice(["hand_made.mpd", "manifest_e.mpd"])
        q = optgen.live_vector(rng, t0, manifest, richness=0.5, encrypted_ok=(streams[0] == "bbb"), patch_ok=False)
        actors.append({"id": "live1", "kind": "player", "prng": rng.getrandbits(32),
                       "latency": {"min_us": 1000, "jitter_us": 100_000},
                       "script": [{"op": "manifest", "path": f"/dash/live/{streams[0]}/{manifest}", "q": q},
                                  {"op": "segments", "select": "edges", "max": 8}] * rng.randrange(1, 3)})
    if rng.random() < 0.3:
        actors.append({"id": "chaos", "kind": "player", "prng": 0,
                       "script": [{"op": "sleep", "us": rng.randrange(0, 500_000)}, {"op": "restart"}]})
    return {"property": prop, "seed": seed, "index": index, "tier": tier, "hashseed": index % base.HASHSEEDS,
            "t0_us": t0, "sched_seed": rng.getrandbits(32), "world": {"streams": streams}, "actors": actors}


RANGE_TEMPLATES = [
    "bytes=0-0", "bytes=0-{L-1}", "bytes=0-{L}", "bytes=0-{L+1}", "bytes={L-1}-{L-1}", "bytes={L-1}-", "bytes={L}-",
    "bytes={L+1}-", "bytes=-1", "bytes=-{L-1}", "bytes=-{L}", "bytes=-{L+1}", "bytes=-0", "bytes=1-0", "bytes=5-4",
    "bytes=0-", "bytes=1-", "bytes=H-", "bytes=H-{L-1}", "bytes=H-H", "bytes=7-H", "bytes=-H", "bytes={L-1}-{L+1}",
    "bytes=0-999999999999999999999",
]
MALFORMED = [
    "bytes", "bytes=", "bytes=-", "bytes=a-b", "bytes=1-2-3", "bytes=0-1,3-4", "items=0-1", "bytes= 0 - 1", "BYTES=0-1",
    "bytes=0x10-0x20", "bytes=--1", "bytes=1--2", "bytes=+1-+2", "bytes=1.5-2", "bytes=²-3", "0-1", "bytes=0-1;q=1",
    " bytes=0-1 ", "bytes=0 -1", "bytes=١-٢",
]


class Oracle:
    def __init__(self, sim: Sim, world, timing_refs: dict[str, str]) -> None:
        self.sim = sim
        self.world = world
        self.index = StoredIndex(world.blob_dir)
        self.timing_refs = timing_refs
        self.write_epoch = 0        # management requests delivered so far (a file may have been replaced)

    def after_delivery(self, msg, resp) -> None:
        if getattr(msg.actor, "kind", "") == "manager":
            self.write_epoch += 1
        else:
            resp.write_epoch = self.write_epoch

    def on_manifest(self, actor, doc, prev) -> None:
        if not actor.id.startswith("obs"):
            return
        sim = self.sim
        subj = url_parts(doc.url)["path"].split("/")[-1]
        if doc.resp.status != 200:
            if doc.resp.status >= 500:
                sim.violate("manifest-5xx", subj, f"{doc.resp.status} for {doc.url}")
            return
        if doc.mpd is None:
            sim.violate("manifest-unparseable", subj, f"{doc.error}; {doc.url}")
            return
        m = doc.mpd
        info = url_parts(doc.url)
        stream = info.get("stream")
        name = self.timing_refs.get(stream)
        ref = self.index.file_for(stream, name) if name else None
        if ref is None:
            return
        sim.check("c06-declared-duration")
        declared = m.mpd_duration
        if declared is None:
            durs = [p.duration for p in m.periods]
            declared = sum(durs, Fraction(0)) if all(d is not None for d in durs) and durs else None
        if declared is None:
            sim.violate("duration-not-declared", subj, f"neither mediaPresentationDuration nor Period durations; {doc.url}")
            return
        want_ms = Fraction(ref.total_duration * 1000, ref.timescale)
        if abs(declared * 1000 - want_ms) > Fraction(1, 2) + Fraction(1, 1000):
            sim.violate("declared-duration", subj,
                        f"manifest declares {float(declared):.4f}s, timing reference {ref.name} lasts "
                        f"{float(want_ms) / 1000:.4f}s; {doc.url}")

    def on_walk(self, actor, result: dict) -> None:
        sim = self.sim
        doc, rep, enum = result["doc"], result["rep"], result["enum"]
        if getattr(doc.resp, "write_epoch", self.write_epoch) != self.write_epoch:
            # the stream was modified after this manifest had been served: it cannot describe what is stored now
            sim.world.probe("c06.skip-walk-across-write")
            return
        info = url_parts(enum.get("init") or enum.get("url") or (enum["segments"][0]["url"] if enum.get("segments") else doc.url))
        stream = info.get("stream") or url_parts(doc.url).get("stream")
        sf = self.index.file_for(stream, rep.id)
        ctype = result["aset"].content_type or "?"
        tmpl = url_parts(doc.url)["path"].split("/")[-1]
        tags = []
        if sf is not None and sf.segments and sf.segments[0].decode_time != 0:
            tags.append("first-decode-time!=0")
        if sf is not None and len({s.duration for s in sf.segments[:-1]}) > 1:
            tags.append("irregular")
        ref_name = self.timing_refs.get(stream)
        ref = self.index.file_for(stream, ref_name) if ref_name else None
        if sf is not None and ref is not None:
            a, b = sf.total_duration * ref.timescale, ref.total_duration * sf.timescale
            if a < b:
                tags.append("shorter-than-ref")
            elif a > b:
                tags.append("longer-than-ref")
        subj = "/".join([enum["kind"] + ("-" + enum["mode"] if enum.get("mode") else ""), ctype] +
                        (["+".join(tags)] if tags else []))
        if sf is None:
            return
        sim.check("c06-walk")
        if enum["kind"] == "template":
            self.walk_template(result, sf, subj, tmpl)
        else:
            self.walk_list(result, sf, subj, tmpl)

    def walk_template(self, result: dict, sf, subj: str, tmpl: str) -> None:
        sim = self.sim
        enum = result["enum"]
        url0 = result["doc"].url
        init = result["init"]
        if init is not None and init.status != 200:
            sim.violate("init-refused", subj, f"{init.status} for {enum['init']} ({url0})")
        decode = None
        total = 0
        n_ok = 0
        for seg, resp in result["segments"]:
            sim.check("c06-enumerated")
            if resp.status != 200:
                sim.violate("enumerated-segment-refused", subj,
                            f"{resp.status} for enumerated segment {seg['url']} (#{seg.get('n')} of "
                            f"{len(result['segments'])}; stored file has {len(sf.segments)}) ({url0})")
                return
            try:
                ms = isobmff.media_segment(resp.body)
            except Exception as err:  # noqa: BLE001
                sim.violate("segment-malformed", subj, f"{err}; {seg['url']}")
                return
            if ms.tfdt is None:
                sim.violate("tfdt-missing", subj, f"{seg['url']}")
                return
            dur = ms.total_duration(sf.default_sample_duration)
            if decode is None:
                sim.check("c06-first-decode-time")
                if ms.tfdt[1] != sf.segments[0].decode_time:
                    sim.violate("first-decode-time", subj,
                                f"first segment decode time {ms.tfdt[1]}, file's first decode time "
                                f"{sf.segments[0].decode_time}; {seg['url']}")
            elif ms.tfdt[1] != decode:
                sim.violate("track-gap", subj,
                            f"segment #{seg.get('n')} starts at {ms.tfdt[1]}, previous ended at {decode}; {seg['url']}")
                return
            if seg.get("t") is not None:
                # a SegmentTimeline entry describes the stored segment it addresses exactly
                sim.check("c06-timeline-entry")
                if ms.tfdt[1] != seg["t"] or (dur is not None and dur != seg["d"]):
                    sim.violate("timeline-entry", subj,
                                f"<S t={seg['t']} d={seg['d']}> but the segment served for it starts at {ms.tfdt[1]} "
                                f"and lasts {dur}; {seg['url']} ({url0})")
            decode = ms.tfdt[1] + (dur or 0)
            total += dur or 0
            n_ok += 1
        sim.check("c06-total-duration")
        if total != sf.total_duration:
            sim.violate("total-duration", subj,
                        f"{n_ok} enumerated segments last {total} ticks, stored media lasts {sf.total_duration} "
                        f"({len(sf.segments)} segments); manifest {url0}")
        pe = result["past_end"]
        if pe is not None:
            sim.check("c06-past-end")
            if pe.status != 404:
                sim.violate("past-end-not-404", subj, f"{pe.status} for {enum['past_end']} ({url0})")

    def walk_list(self, result: dict, sf, subj: str, tmpl: str) -> None:
        sim = self.sim
        enum = result["enum"]
        url0 = result["doc"].url

        def rng_of(txt):
            a, _, b = (txt or "").partition("-")
            return int(a), int(b)
        try:
            init_r = rng_of(enum["init_range"])
            ranges = [rng_of(r) for r in enum["ranges"]]
        except ValueError:
            sim.violate("range-lexical", subj, f"init={enum['init_range']} media={enum['ranges'][:3]}; {url0}")
            return
        sim.check("c06-tiling")
        moofs = [s.moof_pos for s in sf.segments]
        # the stored segment k spans from its first box to the byte before the first box of segment k+1
        top = sf.top
        starts = []
        for i, (name, start, size) in enumerate(top):
            if name == "moof":
                # a segment begins at the styp/sidx/emsg run that directly precedes its moof
                j = i
                while j > 0 and top[j - 1][0] in ("styp", "sidx", "emsg", "prft"):
                    j -= 1
                starts.append(top[j][1])
        ends = [s - 1 for s in starts[1:]] + [sf.size - 1]
        if init_r[0] != 0:
            sim.violate("init-range-start", subj, f"Initialization range {init_r}; {url0}")
        if len(ranges) != len(starts):
            sim.violate("range-count", subj, f"{len(ranges)} media ranges, stored file has {len(starts)} segments; {url0}")
            return
        if ranges and init_r[1] + 1 != ranges[0][0]:
            sim.violate("init-range-end", subj,
                        f"Initialization range ends at {init_r[1]}, first media range begins at {ranges[0][0]}; {url0}")
        box_starts = {start for _, start, _ in top}
        for k, (a, b) in enumerate(ranges):
            if a not in box_starts:
                sim.violate("range-not-on-box", subj, f"media range {k + 1} starts at {a}, not a box boundary; {url0}")
                return
            if (a, b) != (starts[k], ends[k]) and not (a == moofs[k] or a == starts[k]):
                sim.violate("range-start", subj, f"media range {k + 1} = {a}-{b}, stored segment spans {starts[k]}-{ends[k]}; {url0}")
                return
            nxt = ranges[k + 1][0] if k + 1 < len(ranges) else sf.size
            if b + 1 != nxt:
                sim.violate("range-tiling", subj,
                            f"media range {k + 1} ends at {b}, next range / end of file begins at {nxt}; {url0}")
                return
        init = result["init"]
        data = sf.root.data
        if init is not None:
            sim.check("c06-range-bytes")
            if init.status != 206 or init.body != data[init_r[0]:init_r[1] + 1]:
                sim.violate("init-range-bytes", subj, f"status {init.status}, {len(init.body)} bytes; {url0}")
        for (seg, resp), (a, b) in zip(result["segments"], ranges):
            sim.check("c06-range-bytes")
            if resp.status != 206 or resp.body != data[a:b + 1]:
                sim.violate("range-bytes", subj, f"range {a}-{b}: status {resp.status}, {len(resp.body)} bytes; {url0}")
                return


def execute(spec: dict, prop: str = ID, extra_observers=None, nontrivial_keys=("c06-walk",)) -> dict:
    template, timing_refs = mc.world_template(spec["world"])
    simclock.CLOCK.us = spec["t0_us"]
    writes = any(a["kind"] == "manager" for a in spec["actors"])
    world, info = worlds.instantiate("run", template, secrets_seed=base.sub_seed(spec["seed"], "secrets"),
                                     share_blobs=not writes)
    try:
        simclock.CLOCK.us = spec["t0_us"]
        sim = Sim(world, spec["sched_seed"])
        observers = [Oracle(sim, world, timing_refs)] if prop == ID else []
        if observers:
            sim.after_delivery = observers[0].after_delivery
        if extra_observers:
            observers += extra_observers(sim, world)
        actors = []
        for a in spec["actors"]:
            if a["kind"] == "manager":
                from ..actors.manager import Manager
                actors.append(Manager(sim, a))
                continue
            cls = VodPlayer if a["kind"] == "vodplayer" else Player
            p = cls(sim, a)
            p.observers = observers if a["id"].startswith("obs") else []
            actors.append(p)
        sim.run(actors)
        return base.outcome(prop, spec, sim, world, nontrivial=any(sim.checks.get(k) for k in nontrivial_keys),
                            extra={"sim_seconds": (simclock.CLOCK.us - spec["t0_us"]) / 1e6})
    finally:
        world.destroy()
