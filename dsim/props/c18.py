"""C18 — the bundled validator accepts what the server generates and flags corruptions.

The repository's BasicDashValidator (real code, real asyncio concurrency: gather over periods, adaptation
sets and representations) is an actor: its HttpClient is SimHttpClient over SimNet, its worker pool is the
inline executor, its clock is the SimClock.  Acceptance: the run must terminate (event budget) with zero
errors on pristine server output, with seeded latencies and other clients interleaved.  Detection: exactly
one semantic rewrite (net.corrupt) of one response per session, taken round-robin from a catalogue; the
validator must report at least one error located at the corrupted element.
"""
from __future__ import annotations

import logging
import re
import struct
from fractions import Fraction
import urllib.parse

from lxml import etree

from .. import clock as simclock
from .. import optgen, worlds
from ..actors.player import Player
from ..oracles import isobmff
from ..sim import Actor, Message, NetTimeout, Sim
from ..vloop import InlineExecutor
from ..world import Response
from . import base
from . import c06
from . import media_common as mc

ID = "C18"
LEVEL = "fault_enumeration"
RULE = ("acceptance runs: seeded (stream, template, mode, option vector, clock, latency) sessions of the real "
        "validator; detection runs: corruption catalogue x response position x template enumerated round-robin by "
        "run index; non-trivial = the validator fetched at least one manifest and 3 segments; distinct = distinct "
        "abstract traces")
CATALOGUE = ["tfdt", "mfhd", "trun-offset", "saio-offset", "init-box-mvhd", "init-box-trak", "init-box-mvex",
             "timeline-gap", "mpd-attr", "ast-on-refresh", "tfdt-newest"]


def budget(tier: str) -> dict:
    return {"runs": 2400, "wall_s": 85} if tier == "quick" else {"runs": 24000, "wall_s": 840}


def generate(seed: int, tier: str, index: int) -> dict:
    rng = base.rng_for(seed, "gen")
    t0 = simclock.SimClock.parse(rng.choice(mc.T0_CHOICES)) + rng.randrange(0, 1_000_000)
    detect = index % 2 == 1
    corruption = None
    stream = rng.choice(["bbb", "bbb", "tears"])
    if detect:
        kind = CATALOGUE[(index // 2) % len(CATALOGUE)]
        corruption = {"kind": kind, "k": (index // (2 * len(CATALOGUE))) % 5}
    live = rng.random() < 0.6 or (corruption and corruption["kind"] == "ast-on-refresh")
    if corruption and corruption["kind"] == "tfdt-newest":
        live = True
    if corruption and corruption["kind"] in ("timeline-gap", "tfdt-newest"):
        manifest = rng.choice(["hand_made.mpd", "manifest_a.mpd", "manifest_n.mpd"])
    elif live:
        manifest = rng.choice(mc.LIVE_TEMPLATES)
    else:
        manifest, _m = rng.choice([t for t in c06.VOD_TEMPLATES if t[1] == "vod"])
    mode = "live" if live else "vod"
    if live:
        q = optgen.live_vector(rng, t0, manifest, richness=0.35, encrypted_ok=(stream == "bbb"), young_ok=False,
                               events_ok=True, patch_ok=True)
        q.setdefault("depth", str(rng.choice([16, 20, 30])))
        q.pop("leeway", None)
        q.pop("drift", None)
        if rng.random() < 0.12:
            # the server's clock runs ahead of (negative) or behind (positive) the validator's
            q["drift"] = rng.choice(["-10", "-4", "4", "10"])
    else:
        q = c06.vod_vector(rng, manifest, mode, encrypted_ok=(stream == "bbb"))
    if corruption and corruption["kind"] in ("timeline-gap", "tfdt-newest"):
        q["timeline"] = "1"
    if corruption and corruption["kind"] == "saio-offset":
        stream = "bbb"
        q["drm"] = rng.choice(["playready", "clearkey", "all"])
        q.pop("bugs", None)
    q.pop("bugs", None) if corruption else None
    lat = rng.choice([0, 1000, 20_000, 200_000])
    actors = [{"id": "val", "kind": "validator", "prng": rng.getrandbits(32),
               "latency": {"min_us": lat, "jitter_us": rng.choice([0, lat, 400_000])},
               "url": f"/dash/{mode}/{stream}/{manifest}", "q": q, "duration": rng.choice([8, 12, 20]),
               "encrypted": "drm" in q, "script": []}]
    if rng.random() < 0.4:
        m2 = rng.choice(["hand_made.mpd", "manifest_e.mpd"])
        q2 = optgen.live_vector(rng, t0, m2, richness=0.6, encrypted_ok=(stream == "bbb"), patch_ok=False)
        actors.append({"id": "bg1", "kind": "player", "prng": rng.getrandbits(32),
                       "latency": {"min_us": 1000, "jitter_us": 300_000},
                       "script": [{"op": "manifest", "path": f"/dash/live/{stream}/{m2}", "q": q2},
                                  {"op": "segments", "select": "edges", "max": 8},
                                  {"op": "sleep", "us": rng.randrange(1, 6_000_000)}] * rng.randrange(1, 4)})
    return {"property": ID, "seed": seed, "index": index, "tier": tier, "hashseed": index % base.HASHSEEDS,
            "t0_us": t0, "sched_seed": rng.getrandbits(32), "world": {"streams": [stream]}, "actors": actors,
            "corruption": corruption}


class SimHttpResponse:
    """What the validator expects from an HTTP client response (werkzeug-like)."""

    def __init__(self, resp: Response) -> None:
        self.status_code = self.status_int = resp.status
        self.status = "OK" if resp.status < 400 else "ERROR"
        self.headers = {"-".join(p.title() for p in k.split("-")): v for k, v in resp.headers}
        self.body = resp.body
        self.mimetype = (self.headers.get("Content-Type") or "").split(";")[0]
        self._pos = 0

    def get_data(self, as_text: bool = False):
        return self.body.decode("utf-8", "replace") if as_text else self.body

    @property
    def data(self) -> bytes:
        return self.body

    @property
    def text(self) -> str:
        return self.body.decode("utf-8", "replace")

    @property
    def content(self) -> bytes:
        return self.body

    @property
    def xml(self):
        return etree.fromstring(self.body)

    @property
    def json(self):
        import json
        return json.loads(self.body)

    def tell(self) -> int:
        return self._pos

    def read(self, n: int = -1) -> bytes:
        if n is None or n < 0:
            n = len(self.body) - self._pos
        out = self.body[self._pos:self._pos + n]
        self._pos += len(out)
        return out


class SimHttpClient:
    def __init__(self, actor: "ValidatorActor") -> None:
        self.actor = actor

    async def get(self, url, headers=None, params=None, status=None, xhr=False, stream=False):
        if params:
            url += ("&" if "?" in url else "?") + urllib.parse.urlencode(params)
        try:
            resp = await self.actor.request("GET", url, headers=dict(headers or {}), timeout_s=60.0)
        except NetTimeout:
            resp = Response(status=504, headers=[], body=b"")
        return SimHttpResponse(resp)

    async def head(self, url, headers=None, params=None, status=None, xhr=False):
        try:
            resp = await self.actor.request("HEAD", url, headers=dict(headers or {}), timeout_s=60.0)
        except NetTimeout:
            resp = Response(status=504, headers=[], body=b"")
        return SimHttpResponse(resp)


class ValidatorActor(Actor):
    kind = "validator"

    def __init__(self, sim, spec) -> None:
        super().__init__(sim, spec)
        self.errors: list = []
        self.finished = False
        self.crashed: str | None = None
        self.crash_exc: BaseException | None = None
        self.validator = None

    async def run(self) -> None:
        from dashlive.mpeg.dash.validator.basic import BasicDashValidator
        from dashlive.mpeg.dash.validator.concurrent_pool import ConcurrentWorkerPool
        from dashlive.mpeg.dash.validator.options import ValidatorOptions
        spec = self.spec
        url = f"http://sim.dashlive.test{spec['url']}"
        if spec.get("q"):
            url += "?" + urllib.parse.urlencode(spec["q"])
        log = logging.getLogger("dsim.validator")
        log.disabled = True
        opts = ValidatorOptions(duration=spec.get("duration", 10), encrypted=bool(spec.get("encrypted")),
                                pool=ConcurrentWorkerPool(InlineExecutor()), log=log)
        bdv = BasicDashValidator(url, SimHttpClient(self), opts)
        self.validator = bdv
        try:
            await bdv.run()
            self.finished = True
        except Exception as err:  # noqa: BLE001 - a crash of the validator is a finding, not a harness error
            import traceback
            self.crashed = f"{type(err).__name__}: {err} @ " + (traceback.format_exc().strip().splitlines()[-3].strip())
            self.crash_exc = err
        self.errors = bdv.get_errors()


# ------------------------------------------------------------------------------------------ corruptions
class Corruptor:
    """Applies exactly one semantic rewrite to the k-th matching response of the validator actor."""

    def __init__(self, sim: Sim, corruption: dict) -> None:
        self.sim = sim
        self.kind = corruption["kind"]
        self.k = int(corruption.get("k", 0))
        self.seen = 0
        self.applied: dict | None = None
        self.manifests_seen = 0
        self.target_path: str | None = None      # tfdt-newest: the newest video segment the first manifest lists
        self.target_avail_us: int | None = None  # ... and the instant from which it may be requested

    def __call__(self, msg: Message, resp: Response) -> Response:
        if self.applied is not None or msg.actor.id != "val" or resp.status != 200:
            return resp
        path = urllib.parse.urlsplit(msg.url).path
        is_manifest = path.endswith(".mpd")
        is_init = "/init." in path
        is_media = (not is_manifest) and (not is_init) and path.startswith("/dash/")
        try:
            new = None
            if self.kind == "tfdt-newest":
                if is_manifest and self.target_path is None:
                    self.pick_newest(msg.url, resp.body)
                elif is_media and path == self.target_path:
                    self.kind = "tfdt"
                    try:
                        new = self.corrupt_media(resp.body)
                    finally:
                        self.kind = "tfdt-newest"
                    if self.applied is not None:
                        self.applied["what"] = "tfdt-newest"
            elif self.kind in ("tfdt", "mfhd", "trun-offset", "saio-offset") and is_media:
                if self.seen >= self.k:
                    new = self.corrupt_media(resp.body)
                self.seen += 1
            elif self.kind.startswith("init-box-") and is_init:
                if self.seen >= self.k % 2:
                    new = self.corrupt_init(resp.body, self.kind.split("-")[-1].encode())
                self.seen += 1
            elif self.kind == "timeline-gap" and is_manifest:
                new = self.corrupt_timeline(resp.body)
            elif self.kind == "mpd-attr" and is_manifest:
                new = self.corrupt_attr(resp.body)
            elif self.kind == "ast-on-refresh" and is_manifest:
                self.manifests_seen += 1
                if self.manifests_seen >= 2:
                    new = self.corrupt_ast(resp.body)
        except Exception as err:  # noqa: BLE001
            self.sim.world.probe(f"c18.corruptor-error/{self.kind}")
            return resp
        if new is None:
            return resp
        self.applied.update({"url": msg.url, "event": self.sim.world.seq})
        self.sim.world.fired("net.corrupt")
        self.sim.world.note("net", f"corrupt {self.kind} {path}")
        return Response(status=resp.status, headers=resp.headers, body=new, exc=resp.exc, fault=f"net.corrupt:{self.kind}")

    def pick_newest(self, url: str, body: bytes) -> None:
        from ..oracles import mpd as mpdlib
        m = mpdlib.parse(body, url)
        if m.ast_us is None:
            return
        for period in m.periods:
            for aset in period.asets:
                if (aset.content_type or "video") != "video" or not aset.reps:
                    continue
                rep = aset.reps[0]
                tm = rep.template
                if tm is None or not tm.timeline or not tm.media:
                    continue
                e = tm.timeline[-1]
                self.target_path = urllib.parse.urlsplit(mpdlib.segment_url(rep, tm.media, time=e.t)).path
                pstart = period.start or 0
                self.target_avail_us = m.ast_us + int((pstart + Fraction(e.t + e.d - tm.pto, tm.timescale)) * 1_000_000)
                return

    def corrupt_media(self, body: bytes) -> bytes | None:
        seg = isobmff.media_segment(body)
        buf = bytearray(body)
        if self.kind == "tfdt":
            b = seg.traf.find(b"tfdt")
            ver, _, p = isobmff.full(b)
            delta = (seg.total_duration() or 1000) * 3 + 1
            if ver == 1:
                struct.pack_into(">Q", buf, p, seg.tfdt[1] + delta)
            else:
                struct.pack_into(">I", buf, p, (seg.tfdt[1] + delta) & 0xFFFFFFFF)
            self.applied = {"what": "tfdt", "delta": delta}
        elif self.kind == "mfhd":
            b = seg.moof.find(b"mfhd")
            _, _, p = isobmff.full(b)
            struct.pack_into(">I", buf, p, (seg.sequence + 1000) & 0xFFFFFFFF)
            self.applied = {"what": "mfhd"}
        elif self.kind == "trun-offset":
            if seg.trun.data_offset is None:
                return None
            _, _, p = isobmff.full(seg.trun.box)
            struct.pack_into(">i", buf, p + 4, seg.trun.data_offset + len(seg.payload) + 64)
            self.applied = {"what": "trun-offset"}
        elif self.kind == "saio-offset":
            b = seg.traf.find(b"saio")
            if b is None:
                return None
            ver, flags, p = isobmff.full(b)
            if flags & 1:
                p += 8
            p += 4
            if ver == 0:
                old = struct.unpack_from(">I", buf, p)[0]
                struct.pack_into(">I", buf, p, old + 5)
            else:
                old = struct.unpack_from(">Q", buf, p)[0]
                struct.pack_into(">Q", buf, p, old + 5)
            self.applied = {"what": "saio-offset"}
        return bytes(buf)

    def corrupt_init(self, body: bytes, typ: bytes) -> bytes | None:
        root = isobmff.parse(body)
        moov = root.find(b"moov")
        if moov is None:
            return None
        victim = moov.find(typ)
        if victim is None:
            return None
        new_moov_payload = b"".join(c.raw for c in moov.children if c is not victim)
        new_moov = struct.pack(">I4s", 8 + len(new_moov_payload), b"moov") + new_moov_payload
        out = b"".join(c.raw if c is not moov else new_moov for c in root.children)
        self.applied = {"what": f"init-box-{typ.decode()}"}
        return out

    def corrupt_timeline(self, body: bytes) -> bytes | None:
        text = body.decode("utf-8")
        ms = list(re.finditer(r"<S\s[^>]*?\bd=\"(\d+)\"[^>]*/>", text))
        if len(ms) < 2:
            return None
        # open a gap: give the second S element of the first timeline an explicit t beyond the running position
        first = ms[0]
        tm = re.search(r"\bt=\"(\d+)\"", first.group(0))
        if not tm:
            return None
        t0, d0 = int(tm.group(1)), int(first.group(1))
        rm = re.search(r"\br=\"(\d+)\"", first.group(0))
        reps = int(rm.group(1)) + 1 if rm else 1
        second = ms[1]
        if "t=" in second.group(0):
            return None
        gap_t = t0 + d0 * reps + max(1, d0 // 3)
        new_s = second.group(0).replace("<S ", f'<S t="{gap_t}" ', 1)
        line = text.count("\n", 0, second.start()) + 1
        self.applied = {"what": "timeline-gap", "line": line}
        return (text[:second.start()] + new_s + text[second.end():]).encode("utf-8")

    def corrupt_attr(self, body: bytes) -> bytes | None:
        text = body.decode("utf-8")
        dynamic = 'type="dynamic"' in text
        choices = ["minBufferTime", "profiles"] + (["availabilityStartTime"] if dynamic else ["mediaPresentationDuration"])
        attr = choices[self.k % len(choices)]
        m = re.search(r"\s" + attr + r"=\"[^\"]*\"", text)
        if not m:
            return None
        line = text.count("\n", 0, m.start()) + 1
        self.applied = {"what": f"mpd-attr:{attr}", "line": line, "root": True}
        return (text[:m.start()] + text[m.end():]).encode("utf-8")

    def corrupt_ast(self, body: bytes) -> bytes | None:
        text = body.decode("utf-8")
        m = re.search(r"availabilityStartTime=\"(\d{4})", text)
        if not m:
            return None
        year = int(m.group(1)) - 1
        line = text.count("\n", 0, m.start()) + 1
        self.applied = {"what": "ast-on-refresh", "line": line, "root": True}
        return (text[:m.start(1)] + f"{year:04d}" + text[m.end(1):]).encode("utf-8")


def execute(spec: dict) -> dict:
    template, timing_refs = mc.world_template(spec["world"])
    simclock.CLOCK.us = spec["t0_us"]
    world, info = worlds.instantiate("run", template, secrets_seed=base.sub_seed(spec["seed"], "secrets"),
                                     share_blobs=True)
    try:
        simclock.CLOCK.us = spec["t0_us"]
        sim = Sim(world, spec["sched_seed"])
        corruptor = Corruptor(sim, spec["corruption"]) if spec.get("corruption") else None
        if corruptor is not None:
            sim.corruptor = corruptor
        actors = []
        val = None
        for a in spec["actors"]:
            if a["kind"] == "validator":
                val = ValidatorActor(sim, a)
                actors.append(val)
            else:
                actors.append(Player(sim, a))
        sim.run(actors, max_steps=4_000_000)
        subj_tmpl = spec["actors"][0]["url"].split("/")[-1]
        mode = spec["actors"][0]["url"].split("/")[2]
        judge(sim, val, corruptor, subj_tmpl, mode, spec)
        n_media = sum(1 for r in world.trace if r.actor == "val" and r.status == 200)
        return base.outcome(ID, spec, sim, world, nontrivial=n_media >= 4,
                            extra={"sim_seconds": (simclock.CLOCK.us - spec["t0_us"]) / 1e6,
                                   "counters": {("detect." + spec["corruption"]["kind"]) if spec.get("corruption")
                                                else "accept": 1}})
    finally:
        world.destroy()


def adaptation_set_ranges(val: ValidatorActor) -> list[tuple[int, int, set]]:
    """(first line, last line, representation ids) of every AdaptationSet in the manifest the validator holds."""
    lines = val.validator.get_manifest_lines() if val.validator is not None else []
    out = []
    start = None
    ids: set = set()
    for i, line in enumerate(lines, start=1):
        if "<AdaptationSet" in line:
            start, ids = i, set()
        for m in re.finditer(r'<Representation\b[^>]*?\bid="([^"]+)"', line):
            ids.add(m.group(1))
        m = re.search(r'^\s*id="([^"]+)"', line)
        if m and start is not None:
            ids.add(m.group(1))
        if "</AdaptationSet>" in line and start is not None:
            out.append((start, i, ids))
            start = None
    return out


def judge(sim: Sim, val: ValidatorActor, corruptor: Corruptor | None, tmpl: str, mode: str, spec: dict) -> None:
    url = val.spec["url"] + "?" + urllib.parse.urlencode(val.spec.get("q") or {})
    q = val.spec.get("q") or {}
    applied = corruptor.applied if corruptor is not None else None
    phase = corruptor.kind if applied is not None else "accept"
    tags = []
    start = q.get("start", "year")
    try:
        depth = int(q.get("depth", "1800"))
    except ValueError:
        depth = 1800
    if mode == "live":
        if start in ("now", "today", "month", "year", "epoch"):
            tags.append("symbolic-start")
        else:
            try:
                from ..oracles.mpd import parse_datetime_us
                if spec["t0_us"] - parse_datetime_us(start) < (depth + 20) * 1_000_000:
                    tags.append("young-stream")
            except Exception:  # noqa: BLE001
                pass
        if depth < 22:
            tags.append("small-depth")
        if q.get("drift", "0").lstrip("-").isdigit() and int(q.get("drift", "0")) != 0:
            tags.append("server-clock-ahead" if int(q["drift"]) < 0 else "server-clock-behind")
    tagtxt = "+".join(tags)
    drift_tag = next((t for t in tags if t.startswith("server-clock")), None)
    if val.crashed:
        from ..world import exc_site
        sim.violate("validator-crashed", f"{exc_site(val.crash_exc)}/{'accept' if phase == 'accept' else 'corrupted:' + phase}",
                    f"{val.crashed}; {url}; corruption={spec.get('corruption')}")
        return
    if not val.finished:
        sim.violate("validator-did-not-terminate", f"{tmpl}/{mode}" + (f"/{drift_tag}" if drift_tag else ""), f"{url}")
        return
    errors = val.errors
    if (corruptor is not None and corruptor.applied is None and corruptor.kind == "tfdt-newest"
            and corruptor.target_path is not None):
        # the newest listed segment was never requested in this session: nothing could be injected (the statement
        # quantifies over responses of the session, so this is a probe, not a verdict)
        sim.world.probe("c18.newest-listed-segment-never-fetched")
    if corruptor is None or corruptor.applied is None:
        sim.check("c18-accept")
        if corruptor is not None:
            sim.world.probe(f"c18.corruption-not-applicable/{corruptor.kind}")
        if errors:
            seen = set()
            for e in errors:
                where = f"{e.assertion.filename}:{e.assertion.lineno}"
                # errors about a segment name the Representation first ("bbb_a1:5302314.m4a: ..."): keep it in
                # the subject so that a recorded weakness on one track does not hide a new one on another
                mrep = re.match(r"^([A-Za-z0-9_]+):", str(e.msg))
                if mrep:
                    where += "/" + mrep.group(1)
                if where in seen:
                    continue
                seen.add(where)
                sim.violate("false-error", f"{where}" + (f"/{tagtxt}" if tagtxt else ""),
                            f"{len(errors)} errors on pristine output, e.g. {str(e)[:300]}; {url}")
        return
    sim.check("c18-detect")
    sim.world.probe(f"c18.applied/{corruptor.kind}")
    ckind = applied.get("what", corruptor.kind)
    cext = urllib.parse.urlsplit(applied.get("url", "")).path.rsplit(".", 1)[-1]
    if cext in ("m4v", "m4a", "mp4"):
        ckind += "/" + {"m4v": "video", "m4a": "audio", "mp4": "text"}[cext]
    if "small-depth" in tags:
        ckind += "/small-depth"
    if drift_tag:
        ckind += "/" + drift_tag
    if not errors:
        sim.violate("corruption-not-detected", f"{ckind}",
                    f"{applied} applied to {applied.get('url')} but the validator reported no error; session {url}")
        return
    # located at the corrupted element?  An error designates the corrupted element when its manifest line
    # range overlaps the AdaptationSet that contains the corrupted segment / timeline entry (the validator
    # attaches segment errors to the Representation or SegmentTemplate they belong to), when its message
    # names the corrupted segment, or - for MPD root attributes - when it points at the MPD element.
    located = False
    cpath = urllib.parse.urlsplit(applied.get("url", "")).path
    parts = cpath.split("/")
    seg_name = parts[-1]
    rep_id = parts[-3] if "/time/" in cpath else parts[-2] if len(parts) >= 2 else ""
    ranges = adaptation_set_ranges(val)
    target = None
    if "line" in applied and not applied.get("root"):
        target = next((r for r in ranges if r[0] <= applied["line"] <= r[1]), None)
    elif "line" not in applied:
        target = next((r for r in ranges if rep_id in r[2]), None)
    for e in errors:
        msg = str(e.msg)
        lo, hi = (e.location.start, e.location.end) if e.location is not None else (None, None)
        if lo is None or hi is None:
            # attached to the validator root (no manifest line): designates the MPD element itself
            if applied.get("root"):
                located = True
                break
            if "line" not in applied and (seg_name in msg or f"{rep_id}:" in msg):
                located = True
                break
            continue
        if applied.get("root"):
            if lo <= max(3, applied["line"]) or lo <= applied["line"] <= hi:
                located = True
                break
            continue
        if target is not None and lo <= target[1] and hi >= target[0]:
            located = True
            break
        if "line" not in applied and (seg_name in msg or f"{rep_id}:" in msg):
            located = True
            break
    if not located:
        sim.violate("corruption-error-misplaced", f"{ckind}/{tmpl}",
                    f"{applied}: {len(errors)} errors, none located at the corrupted element; first: {str(errors[0])[:240]}")
