"""C05 — every manifest response is well-formed, structurally valid DASH.

A manager stores hostile strings through the management API when the world is built (stream titles,
licence URLs, multi-period stream titles and period ids: only what the service really accepts and
persists), players send hostile query values and Host headers, the clock sits on values that stress derived
lexical forms.  Oracle on every 200 response of /dash/..mpd, /mps/..mpd and /patch/..:
  * lxml parses the body;
  * twin run: the same spec executed again with every hostile string replaced by a benign placeholder -
    the element skeleton (sorted multiset of tag paths) of each response must equal its twin's;
  * structural rules written from ISO/IEC 23009-1.
"""
from __future__ import annotations

import copy
import re
import urllib.parse

from lxml import etree

from .. import clock as simclock
from .. import optgen, worlds
from ..actors.player import Player
from ..oracles import mpd as mpdlib
from ..sim import Sim
from . import base
from . import media_common as mc

ID = "C05"
LEVEL = "exploration"

HOSTILE = [
    'Tom & "Jerry" <b>bold</b>', "a]]>b", "x' y=\"z", "<!-- c -->", "&amp;&lt;", "ümlaut ☃ 雪", "tab\there", "%3Cx%3E",
    "&", "<", ">", '"', "'", "a&b=c&d", "</MPD>", "${jndi}", "{{7*7}}", "L" * 400, "  ", "\\u0000",
]
BENIGN = ["Tom and Jerry bold", "a-b", "x y z", "comment c", "amp lt", "umlaut snow", "tab here", "3Cx3E",
          "a", "b", "c", "d", "e", "a b c d", "end", "jndi", "7x7", "L" * 400, "sp", "u0000"]
HOSTILE_URLS = ["https://lic.test/a?b=1&c=<x>&d=\"q\"", "ms3://h/p?x=1&y='2'", "https://x.test/{cfgs}/&/<kid>",
                "https://x.test/]]>", "http://x.test/?a=b&amp;c=d"]
BENIGN_URLS = ["https://lic.test/a", "ms3://h/p", "https://x.test/cfgs", "https://x.test/e", "http://x.test/a"]
HOSTILE_HOSTS = ['evil.test"><x y="', "a&b.test", "h.test:80<", "xn--nxa.test", "h.test'", "sim.dashlive.test"]
BENIGN_HOSTS = ["evil.test", "ab.test", "h.test:80", "xn--nxa.test", "h.test", "sim.dashlive.test"]

TWIN = dict(zip(HOSTILE + HOSTILE_URLS + HOSTILE_HOSTS, BENIGN + BENIGN_URLS + BENIGN_HOSTS))
STRING_OPTIONS = ["tlang", "main_audio", "ad_audio", "main_text", "time_value", "ntp_servers", "player", "tcodec",
                  "ping__value", "scte35__value", "acodec", "events", "bugs"]
URL_OPTIONS = ["clearkey__la_url", "marlin__la_url", "playready__la_url"]


def budget(tier: str) -> dict:
    return {"runs": 260, "wall_s": 75} if tier == "quick" else {"runs": 8000, "wall_s": 840}


def world_variant(n: int, hostile: bool) -> dict:
    """Stream metadata variant n; hostile=False gives the benign twin (same structure)."""
    pick = (lambda lst, twin, i: lst[i % len(lst)] if hostile else twin[i % len(twin)])
    fz = copy.deepcopy(mc.forge_presets()[0])
    fz["title"] = pick(HOSTILE, BENIGN, n)
    fz["marlin_la_url"] = pick(HOSTILE_URLS, BENIGN_URLS, n)
    fz["playready_la_url"] = pick(HOSTILE_URLS, BENIGN_URLS, n + 1)
    enc = {"dir": "enc", "title": pick(HOSTILE, BENIGN, n + 3), "timing_ref": "bbb_v7",
           "files": ["bbb/bbb_v7.mp4", "bbb/bbb_a1.mp4", "bbb/bbb_v7_enc.mp4", "bbb/bbb_a1_enc.mp4"],
           "marlin_la_url": pick(HOSTILE_URLS, BENIGN_URLS, n + 2), "playready_la_url": pick(HOSTILE_URLS, BENIGN_URLS, n + 3)}
    tracks = [{"track_id": 1, "role": "main", "lang": "und", "encrypted": False}]
    # a stream whose audio has no encrypted copy: a multi-period manifest with DRM falls back to the clear file
    enc2 = {"dir": "enc2", "title": "partly encrypted", "timing_ref": "pe_v7",
            "files": [{"copy": "bbb/bbb_v7.mp4", "as": "pe_v7.mp4"}, {"copy": "bbb/bbb_v7_enc.mp4", "as": "pe_v7_enc.mp4"},
                      {"copy": "bbb/bbb_a1.mp4", "as": "pe_a1.mp4"}]}
    tracks_av = [{"track_id": 1, "role": "main", "lang": "und", "encrypted": True},
                 {"track_id": 2, "role": "main", "lang": "und", "encrypted": False}]
    return {"streams": [fz, enc, enc2],
            "mps": [{"name": "mps1", "title": pick(HOSTILE, BENIGN, n + 5) + " xx", "periods": [
                {"pid": "p.1-a_", "stream": "fza", "start": "PT0S", "duration": "PT6S", "tracks": tracks},
                {"pid": "p2", "stream": "fza", "start": "PT2S", "duration": "PT4S", "tracks": tracks}]},
                    {"name": "mps2", "title": "partly encrypted periods", "periods": [
                        {"pid": "q1", "stream": "enc2", "start": "PT4S", "duration": "PT12S", "tracks": tracks_av},
                        {"pid": "q2", "stream": "enc", "start": "PT0S", "duration": "PT8S", "tracks": tracks_av}]}]}


ALL_TEMPLATES = ["hand_made.mpd", "manifest_a.mpd", "manifest_b.mpd", "manifest_e.mpd", "manifest_h.mpd",
                 "manifest_i.mpd", "manifest_n.mpd", "manifest_ef.mpd", "manifest_vod_aiv.mpd"]
T0S = ["2024-01-01T00:00:00Z", "2024-02-29T23:59:59.999999Z", "2024-12-31T23:59:59.9995Z", "2031-01-01T00:00:00.0004Z",
       "2025-06-15T12:00:00.9996Z", "1999-12-31T23:59:30Z", "2038-01-19T03:14:07.5Z", "2100-03-01T00:00:59.99951Z"]


def generate(seed: int, tier: str, index: int) -> dict:
    from dashlive.server.manifests import manifest_map
    rng = base.rng_for(seed, "gen")
    t0 = simclock.SimClock.parse(rng.choice(T0S))
    variant = rng.randrange(len(HOSTILE))
    actors = []
    for i in range(rng.choice([1, 2])):
        script = []
        for _ in range(rng.randrange(2, 7)):
            tmpl = rng.choice(ALL_TEMPLATES)
            mft = manifest_map[tmpl]
            modes = sorted(mft.restrictions.get("mode", {"live", "vod", "odvod"}))
            mode = rng.choice(modes)
            route = rng.random()
            stream = rng.choice(["fza", "enc"])
            if mode == "live":
                q = optgen.live_vector(rng, t0, tmpl, richness=0.5, encrypted_ok=(stream == "enc"))
            else:
                from .c06 import vod_vector
                q = vod_vector(rng, tmpl, mode, encrypted_ok=(stream == "enc"))
            for _ in range(rng.choice([0, 1, 1, 2])):
                q[rng.choice(STRING_OPTIONS)] = rng.choice(HOSTILE)
            if rng.random() < 0.3:
                q[rng.choice(URL_OPTIONS)] = rng.choice(HOSTILE_URLS)
            if rng.random() < 0.15:
                q[rng.choice(HOSTILE)[:20]] = rng.choice(HOSTILE)       # unknown parameter names
            headers = {}
            if rng.random() < 0.3:
                headers["Host"] = rng.choice(HOSTILE_HOSTS)
            if route < 0.1 and mode in ("live", "vod"):
                path = f"/mps/{mode}/mps2/{tmpl}"
                q["drm"] = optgen.gen_drm(rng) if rng.random() < 0.7 else q.get("drm", "none")
            elif route < 0.25 and mode in ("live", "vod"):
                path = f"/mps/{mode}/mps1/{tmpl}"
            else:
                path = f"/dash/{mode}/{stream}/{tmpl}"
            step = {"op": "manifest", "path": path, "q": q}
            if headers:
                step["headers"] = headers
            script.append(step)
            if q.get("patch") == "1" and tmpl == "hand_made.mpd" and mode == "live":
                script.append({"op": "jump", "us": rng.choice([0, 1, 4_000_000, 9_000_000])})
                script.append({"op": "patch"})
            if rng.random() < 0.3:
                script.append({"op": "jump", "us": rng.choice([1, 500, 999_500, 59_999_000, 86_400_000_000])})
        actors.append({"id": f"obs{i + 1}", "kind": "player", "prng": rng.getrandbits(32),
                       "latency": {"min_us": 0, "jitter_us": 0}, "script": script})
    if rng.random() < 0.3:
        actors.append({"id": "chaos", "kind": "player", "prng": 0,
                       "script": [{"op": "sleep", "us": rng.randrange(0, 3_000_000)}, {"op": "restart"}]})
    return {"property": ID, "seed": seed, "index": index, "tier": tier, "hashseed": index % base.HASHSEEDS,
            "t0_us": t0, "sched_seed": rng.getrandbits(32), "world": {"variant": variant}, "actors": actors}


# ------------------------------------------------------------------------------------------ structural rules
NSQ = mpdlib.Q
DURATION_ATTRS = {
    "MPD": ["mediaPresentationDuration", "minimumUpdatePeriod", "minBufferTime", "timeShiftBufferDepth",
            "suggestedPresentationDelay", "maxSegmentDuration", "maxSubsegmentDuration"],
    "Period": ["start", "duration"],
}
DATETIME_ATTRS = {"MPD": ["availabilityStartTime", "availabilityEndTime", "publishTime"]}
UINT_ATTRS = {
    "SegmentTemplate": ["timescale", "duration", "startNumber", "presentationTimeOffset"],
    "SegmentList": ["timescale", "duration"], "SegmentBase": ["timescale", "presentationTimeOffset"],
    "S": ["t", "d"], "Representation": ["bandwidth", "width", "height", "startWithSAP"],
    "AdaptationSet": ["id", "group", "maxWidth", "maxHeight", "minWidth", "minHeight", "startWithSAP",
                      "subsegmentStartsWithSAP"],
    "ContentComponent": ["id"], "EventStream": ["timescale", "presentationTimeOffset"],
    "InbandEventStream": ["timescale"], "Event": ["presentationTime", "duration", "id"],
}
UINT = re.compile(r"^[0-9]+$")


def structural(root, subj: str, url: str, violate, check) -> None:
    loc = root.tag.rsplit("}", 1)[-1]
    if loc != "MPD":
        return
    a = root.attrib
    mtype = a.get("type", "static")
    check("c05-required")
    for need in ("profiles", "minBufferTime"):
        if need not in a:
            violate("required-attribute", f"{subj}/MPD@{need}", f"missing; {url}")
    if mtype == "dynamic":
        for need in ("availabilityStartTime", "publishTime"):
            if need not in a:
                violate("required-attribute", f"{subj}/MPD@{need}", f"missing in a dynamic MPD; {url}")
    else:
        periods = root.findall(NSQ + "Period")
        if "mediaPresentationDuration" not in a and not (periods and "duration" in periods[-1].attrib):
            violate("required-attribute", f"{subj}/MPD@mediaPresentationDuration", f"missing in a static MPD; {url}")
    for e in root.iter():
        if not isinstance(e.tag, str) or not e.tag.startswith(NSQ):
            continue
        name = e.tag[len(NSQ):]
        for attr in DURATION_ATTRS.get(name, []):
            if attr in e.attrib:
                check("c05-duration")
                try:
                    val = mpdlib.parse_duration(e.attrib[attr])
                    if val < 0:
                        violate("negative-duration", f"{subj}/{name}@{attr}", f"{e.attrib[attr]!r}; {url}")
                except mpdlib.LexicalError:
                    violate("duration-lexical", f"{subj}/{name}@{attr}", f"{e.attrib[attr]!r}; {url}")
        for attr in DATETIME_ATTRS.get(name, []):
            if attr in e.attrib:
                check("c05-datetime")
                try:
                    mpdlib.parse_datetime_us(e.attrib[attr])
                except mpdlib.LexicalError:
                    violate("datetime-lexical", f"{subj}/{name}@{attr}", f"{e.attrib[attr]!r}; {url}")
        for attr in UINT_ATTRS.get(name, []):
            if attr in e.attrib:
                check("c05-uint")
                if not UINT.match(e.attrib[attr]):
                    violate("unsigned-int-lexical", f"{subj}/{name}@{attr}", f"{e.attrib[attr]!r}; {url}")
        if name == "S" and "r" in e.attrib and not re.match(r"^-?[0-9]+$", e.attrib["r"]):
            violate("unsigned-int-lexical", f"{subj}/S@r", f"{e.attrib['r']!r}; {url}")
        if name == "PatchLocation" and "ttl" in e.attrib:
            try:
                if float(e.attrib["ttl"]) < 0:
                    raise ValueError
            except ValueError:
                violate("unsigned-int-lexical", f"{subj}/PatchLocation@ttl", f"{e.attrib['ttl']!r}; {url}")
        if name == "SegmentTemplate":
            for attr in ("media", "initialization", "index"):
                if attr in e.attrib:
                    check("c05-template-ids")
                    for ident in mpdlib.template_identifiers(e.attrib[attr]):
                        base_id = re.sub(r"%0\d+d$", "", ident)
                        if base_id not in ("RepresentationID", "Number", "Time", "Bandwidth", ""):
                            violate("template-identifier", f"{subj}/SegmentTemplate@{attr}",
                                    f"${ident[:40]}$ in {e.attrib[attr][:120]!r}; {url}")
                            break
    check("c05-ids")
    pids = [p.attrib.get("id") for p in root.findall(NSQ + "Period") if "id" in p.attrib]
    if len(pids) != len(set(pids)):
        violate("duplicate-id", f"{subj}/Period", f"{pids}; {url}")
    for p in root.findall(NSQ + "Period"):
        aids = [x.attrib["id"] for x in p.findall(NSQ + "AdaptationSet") if "id" in x.attrib]
        if len(aids) != len(set(aids)):
            violate("duplicate-id", f"{subj}/AdaptationSet", f"{aids}; {url}")
        rids = [r.attrib.get("id") for x in p.findall(NSQ + "AdaptationSet") for r in x.findall(NSQ + "Representation")]
        if len(rids) != len(set(rids)):
            violate("duplicate-id", f"{subj}/Representation", f"{rids}; {url}")
        for x in p.findall(NSQ + "AdaptationSet"):
            check("c05-nonempty")
            if not x.findall(NSQ + "Representation"):
                violate("empty-adaptation-set", subj, f"AdaptationSet {dict(x.attrib)}; {url}")


class Recorder:
    """Records (event index -> parsed skeleton) for the twin comparison and applies the direct rules."""

    def __init__(self, sim: Sim, judge: bool) -> None:
        self.sim = sim
        self.judge = judge
        self.records: list[dict] = []

    def handle(self, actor, url: str, resp, kind: str) -> None:
        sim = self.sim
        rec = {"actor": actor.id, "n": len([r for r in self.records if r["actor"] == actor.id]), "url": url,
               "status": resp.status, "skeleton": None, "kind": kind}
        self.records.append(rec)
        subj = urllib.parse.urlsplit(url).path.split("/")[-1] if kind == "manifest" else "patch"
        if resp.status >= 500 and self.judge:
            from ..world import exc_site
            sim.violate("manifest-5xx", f"{subj}/{exc_site(resp.exc)}", f"{resp.status} for {url[:300]}")
            return
        if resp.status != 200:
            return
        if self.judge:
            sim.check("c05-wellformed")
        try:
            root = etree.fromstring(resp.body, etree.XMLParser(resolve_entities=False, no_network=True))
        except etree.XMLSyntaxError as err:
            if self.judge:
                sim.violate("not-well-formed", subj, f"{str(err)[:160]}; {url[:400]}")
            return
        rec["skeleton"] = mpdlib.skeleton(root)
        if self.judge:
            def violate(rule, subject, detail):
                sim.violate(rule, subject, detail[:700])
            structural(root, subj, url[:300], violate, sim.check)

    def on_manifest(self, actor, doc, prev) -> None:
        if actor.id.startswith("obs"):
            self.handle(actor, doc.url, doc.resp, "manifest")

    def on_patch(self, actor, cur, url, resp) -> None:
        if actor.id.startswith("obs"):
            self.handle(actor, url, resp, "patch")


def twin_of(obj):
    if isinstance(obj, str):
        out = obj
        for h in sorted(TWIN, key=len, reverse=True):
            if h in out and TWIN[h] != h:
                out = out.replace(h, TWIN[h])
        return out
    if isinstance(obj, list):
        return [twin_of(x) for x in obj]
    if isinstance(obj, dict):
        return {twin_of(k) if isinstance(k, str) else k: twin_of(v) for k, v in obj.items()}
    return obj


def run_once(spec: dict, hostile: bool, judge: bool):
    template = world_variant(spec["world"]["variant"], hostile)
    simclock.CLOCK.us = spec["t0_us"]
    world, info = worlds.instantiate("run" if hostile else "twin", template,
                                     secrets_seed=base.sub_seed(spec["seed"], "secrets"), share_blobs=True)
    simclock.CLOCK.us = spec["t0_us"]
    sim = Sim(world, spec["sched_seed"])
    rec = Recorder(sim, judge)
    actors = []
    for a in (spec["actors"] if hostile else twin_of(spec["actors"])):
        p = Player(sim, a)
        p.observers = [rec]
        actors.append(p)
    sim.run(actors)
    return sim, world, rec


def execute(spec: dict) -> dict:
    sim, world, rec = run_once(spec, hostile=True, judge=True)
    try:
        end_us = simclock.CLOCK.us
        sim2, world2, rec2 = run_once(spec, hostile=False, judge=False)
        try:
            twin = {(r["actor"], r["n"]): r for r in rec2.records}
            for r in rec.records:
                t = twin.get((r["actor"], r["n"]))
                if t is None or r["skeleton"] is None or t["skeleton"] is None:
                    if t is not None and r["status"] == 200 and t["status"] == 200 and r["skeleton"] is None:
                        pass        # already reported as not-well-formed
                    continue
                sim.check("c05-twin-skeleton")
                if r["skeleton"] != t["skeleton"]:
                    a, b = r["skeleton"], t["skeleton"]
                    extra = [x for x in a if x not in b][:3]
                    missing = [x for x in b if x not in a][:3]
                    subj = urllib.parse.urlsplit(r["url"]).path.split("/")[-1] if r["kind"] == "manifest" else "patch"
                    sim.violate("element-structure-changed", subj,
                                f"hostile strings changed the element structure: extra {extra} missing {missing}; "
                                f"{r['url'][:300]}")
        finally:
            world2.destroy()
        return base.outcome(ID, spec, sim, world, nontrivial=bool(sim.checks.get("c05-wellformed")),
                            extra={"sim_seconds": (end_us - spec["t0_us"]) / 1e6})
    finally:
        world.destroy()
