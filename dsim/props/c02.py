"""C02 — served segments carry exactly the advertised time, number and duration."""
from __future__ import annotations

from . import media_common as mc

ID = "C02"
LEVEL = "exploration"


def budget(tier: str) -> dict:
    return {"runs": 500, "wall_s": 70} if tier == "quick" else {"runs": 15000, "wall_s": 840}


def generate(seed: int, tier: str, index: int) -> dict:
    return mc.generate_live(ID, seed, tier, index, richness=0.4, seg_cap=70, wakeups=(2, 6), forge_p=0.6)


def execute(spec: dict) -> dict:
    return mc.execute_live(ID, spec, {"C02"}, ("c02-time-tfdt", "c02-number-sequence"))
