"""C12 — multi-period presentations tile the timeline and play the right media.

Multi-period streams are created through the management API when the world is built (1-3 periods over
fixture and forged streams, start offsets and durations on and off segment boundaries).  Players fetch
/mps/live|vod manifests while the clock walks across period and loop boundaries, the server restarts and
a manager edits a *different* multi-period stream concurrently.
"""
from __future__ import annotations

import hashlib
import math
import urllib.parse
from fractions import Fraction

from .. import clock as simclock
from .. import optgen, worlds
from ..actors.manager import Manager
from ..actors.player import BASE, Player
from ..oracles import isobmff
from ..oracles import mpd as mpdlib
from ..oracles.media import StoredIndex
from ..sim import NetTimeout, Sim
from . import base
from . import media_common as mc

ID = "C12"
LEVEL = "exploration"
MPS_TEMPLATES = ["hand_made.mpd", "manifest_a.mpd", "manifest_e.mpd", "manifest_h.mpd", "manifest_n.mpd",
                 "manifest_i.mpd", "manifest_ef.mpd"]

TRACKS_AV = [{"track_id": 1, "role": "main", "lang": "und", "encrypted": False},
             {"track_id": 2, "role": "main", "lang": "und", "encrypted": False}]
TRACKS_V = TRACKS_AV[:1]

# name -> definition (periods refer to streams of the world)
MPS_DEFS = {
    "mpa": {"title": "bbb then tears", "periods": [
        {"pid": "p1", "stream": "bbb", "start": "PT0S", "duration": "PT12S", "tracks": TRACKS_AV},
        {"pid": "p2", "stream": "tears", "start": "PT4S", "duration": "PT10S", "tracks": TRACKS_AV}]},
    "mpb": {"title": "off boundaries", "periods": [
        {"pid": "a", "stream": "bbb", "start": "PT5S", "duration": "PT13.5S", "tracks": TRACKS_AV},
        {"pid": "b", "stream": "bbb", "start": "PT21S", "duration": "PT8S", "tracks": TRACKS_V},
        {"pid": "c", "stream": "tears", "start": "PT0.7S", "duration": "PT6S", "tracks": TRACKS_AV}]},
    "mpc": {"title": "single forged", "periods": [
        {"pid": "only", "stream": "fza", "start": "PT1.5S", "duration": "PT6S", "tracks": TRACKS_AV}]},
    "mpd": {"title": "forged pair", "periods": [
        {"pid": "x", "stream": "fzd", "start": "PT2S", "duration": "PT4S", "tracks": TRACKS_AV},
        {"pid": "y", "stream": "fza", "start": "PT0S", "duration": "PT11S", "tracks": TRACKS_V}]},
    "mpe": {"title": "beyond the source", "periods": [
        {"pid": "tail", "stream": "bbb", "start": "PT32S", "duration": "PT16S", "tracks": TRACKS_AV}]},
}
WORLDS = {
    "w1": (["bbb", "tears"], ["mpa", "mpb", "mpe"]),
    "w2": (["fza", "fzd"], ["mpc", "mpd"]),
}


def budget(tier: str) -> dict:
    return {"runs": 400, "wall_s": 80} if tier == "quick" else {"runs": 9000, "wall_s": 840}


def world_template(name: str) -> tuple[dict, dict]:
    streams, mps = WORLDS[name]
    template, timing_refs = mc.world_template({"streams": streams})
    for s in template["streams"]:
        if s["dir"] == "bbb":
            s["files"] = [f for f in s["files"] if "_enc" not in str(f) and "bbb_t1" not in str(f)]
    template["mps"] = [{"name": n, **MPS_DEFS[n]} for n in mps]
    return template, timing_refs


def generate(seed: int, tier: str, index: int) -> dict:
    rng = base.rng_for(seed, "gen")
    wname = rng.choice(["w1", "w1", "w2"])
    t0 = simclock.SimClock.parse(rng.choice(mc.T0_CHOICES)) + rng.randrange(0, 1_000_000)
    actors = []
    for i in range(rng.choice([1, 1, 2])):
        name = rng.choice(WORLDS[wname][1])
        manifest = rng.choice(MPS_TEMPLATES)
        mode = rng.choice(["live", "live", "vod"])
        q: dict[str, str] = {}
        if mode == "live":
            if rng.random() < 0.6:
                q["depth"] = str(rng.choice([10, 20, 30, 45, 60, 120]))
            if rng.random() < 0.5:
                q["start"] = rng.choice(["epoch", "today", "year", optgen.gen_start(rng, t0, young_ok=False)])
            if rng.random() < 0.3:
                q["mup"] = str(rng.choice([-1, 2, 8]))
        if rng.random() < 0.4 and manifest in ("hand_made.mpd",):
            q["timeline"] = "1"
        script = []
        for k in range(rng.randrange(1, 4)):
            if k or rng.random() < 0.5:
                script.append({"op": "jump", "us": rng.choice([1, 1_000_000, 4_000_000, 12_000_000, 22_000_001,
                                                               rng.randrange(1, 60_000_000), 3600_000_000])})
            script.append({"op": "manifest", "path": f"/mps/{mode}/{name}/{manifest}", "q": q})
            script.append({"op": "walk_periods", "periods": rng.choice([1, 2, 3]), "max": 14})
        actors.append({"id": f"obs{i + 1}", "kind": "mpsplayer", "prng": rng.getrandbits(32),
                       "latency": {"min_us": 0, "jitter_us": 0}, "script": script, "mps": name})
    if rng.random() < 0.35:
        other = rng.choice(WORLDS[wname][1])
        actors.append({"id": "mgr", "kind": "manager", "role": "media", "prng": rng.getrandbits(32),
                       "latency": {"min_us": 1000, "jitter_us": 200_000}, "avoid": [a["mps"] for a in actors],
                       "script": [{"op": "auth"}, {"op": "add_mps", "name": "extra", "title": "extra one", "periods": [
                           {"which": 0, "pid": "e1", "start": "PT0S", "duration": "PT4S"}]},
                           {"op": "edit_mps", "target": "extra", "title": "edited title", "periods": [
                               {"which": 0, "pid": "e1", "start": "PT0S", "duration": "PT8S"}]},
                           {"op": "delete_mps", "target": "extra"}]})
    if rng.random() < 0.35:
        actors.append({"id": "chaos", "kind": "mpsplayer", "prng": 0, "mps": "",
                       "script": [{"op": "sleep", "us": rng.randrange(0, 2_000_000)}, {"op": "restart"}]})
    return {"property": ID, "seed": seed, "index": index, "tier": tier, "hashseed": index % base.HASHSEEDS,
            "t0_us": t0, "sched_seed": rng.getrandbits(32), "world": {"name": wname}, "actors": actors}


class MpsPlayer(Player):
    kind = "mpsplayer"

    async def run(self) -> None:
        for step in self.script:
            op = step["op"]
            if op == "manifest":
                q = step.get("q") or {}
                url = BASE + step["path"] + ("?" + urllib.parse.urlencode(q) if q else "")
                await self.fetch_manifest(url, None)
            elif op == "walk_periods":
                await self.walk_periods(step)
            elif op == "jump":
                await self.sim.net.clock_event(self, int(step["us"]))
            elif op == "sleep":
                await self.sleep_us(int(step["us"]))
            elif op == "restart":
                self.sim.restart(self.id)

    async def walk_periods(self, step: dict) -> None:
        doc = self.current
        if doc is None or doc.mpd is None:
            return
        m = doc.mpd
        periods = list(m.periods)
        if len(periods) > step.get("periods", 2):
            keep = {0, len(periods) - 1, self.rng.randrange(len(periods))}
            periods = [p for i, p in enumerate(periods) if i in keep][:step.get("periods", 2)]
        for period in periods:
            for aset in period.asets:
                if not aset.reps:
                    continue
                rep = aset.reps[0]
                tm = rep.template
                if tm is None or tm.media is None:
                    continue
                walk = {"doc": doc, "period": period, "aset": aset, "rep": rep, "init": None, "segments": [],
                        "beyond": None, "mode": "number" if tm.timeline is None else "time"}
                try:
                    if tm.initialization:
                        walk["init_url"] = mpdlib.segment_url(rep, tm.initialization)
                        walk["init"] = await self.get(walk["init_url"])
                    cap = int(step.get("max", 12))
                    if tm.timeline is not None:
                        # the statement speaks of the segment *numbers* a Period admits; SegmentTimeline
                        # manifests of multi-period streams are only judged at manifest level
                        self.sim.world.probe("c12.timeline-period-not-walked")
                        continue
                    elif tm.duration and period.duration is not None:
                        n = math.ceil(Fraction(period.duration) * tm.timescale / tm.duration)
                        walk["admitted"] = n
                        for k in range(min(n, cap)):
                            url = mpdlib.segment_url(rep, tm.media, number=tm.start_number + k)
                            walk["segments"].append(({"n": tm.start_number + k, "t": None, "d": None, "url": url},
                                                     await self.get(url)))
                        url = mpdlib.segment_url(rep, tm.media, number=tm.start_number + 5000)
                        walk["beyond"] = ({"n": tm.start_number + 5000, "url": url}, await self.get(url))
                except NetTimeout:
                    continue
                self.notify("on_period_walk", walk)


class Oracle:
    def __init__(self, sim: Sim, world, wname: str, info: dict) -> None:
        self.sim = sim
        self.world = world
        self.index = StoredIndex(world.blob_dir)
        self.defs = {n: MPS_DEFS[n] for n in WORLDS[wname][1]}
        # period pk -> (mps name, definition)
        self.period_by_pk: dict[int, tuple[str, dict]] = {}
        for name, model in (info.get("mps") or {}).items():
            for prd in model.get("periods", []):
                d = next((p for p in MPS_DEFS[name]["periods"] if p["pid"] == prd["pid"]), None)
                if d is not None:
                    self.period_by_pk[prd["pk"]] = (name, d)
        self.timing_refs = {"bbb": "bbb_v7", "tears": "tears_v1", "fza": "fza_v1", "fzd": "fzd_v1"}

    def on_manifest(self, actor, doc, prev) -> None:
        sim = self.sim
        if not actor.id.startswith("obs"):
            return
        sp = urllib.parse.urlsplit(doc.url)
        parts = sp.path.split("/")
        mode, name, tmpl = parts[2], parts[3], parts[4]
        subj = f"{mode}/{tmpl}"
        if doc.resp.status != 200:
            if doc.resp.status >= 500:
                from ..world import exc_site
                sim.violate("manifest-5xx", f"{subj}/{exc_site(doc.resp.exc)}", f"{doc.resp.status} for {doc.url}")
            return
        if doc.mpd is None:
            sim.violate("manifest-unparseable", subj, f"{doc.error}; {doc.url}")
            return
        m = doc.mpd
        sim.check("c12-manifest")
        ps = m.periods
        ids = [p.id for p in ps]
        if len(ids) != len(set(ids)):
            sim.violate("period-ids-not-unique", subj, f"{ids}; {doc.url}")
        for a, b in zip(ps, ps[1:]):
            sim.check("c12-contiguous")
            if a.start is None or b.start is None or a.duration is None:
                sim.violate("period-timing-missing", subj, f"period {a.id}: start={a.start} duration={a.duration}; {doc.url}")
                continue
            if a.start + a.duration != b.start:
                sim.violate("periods-not-contiguous", subj,
                            f"period {a.id} starts {float(a.start)} lasts {float(a.duration)}, next {b.id} starts "
                            f"{float(b.start)}; {doc.url}")
        if mode == "vod":
            sim.check("c12-vod-sum")
            if m.mpd_duration is not None and all(p.duration is not None for p in ps):
                total = sum((p.duration for p in ps), Fraction(0))
                if total != m.mpd_duration:
                    sim.violate("vod-durations-sum", subj,
                                f"periods sum to {float(total)}s, mediaPresentationDuration {float(m.mpd_duration)}s; {doc.url}")
        else:
            sim.check("c12-live-cover")
            if m.ast_us is None or not ps:
                sim.violate("live-no-periods", subj, f"{doc.url}")
                return
            now = Fraction(doc.fetched_us - m.ast_us, 1_000_000)
            tsbd = m.tsbd or Fraction(0)
            first, last = ps[0], ps[-1]
            lo = max(Fraction(0), now - tsbd)
            if first.start is not None and first.start > lo:
                sim.violate("live-window-not-covered", f"{subj}/trailing",
                            f"first period starts at {float(first.start)}, window begins at {float(lo)} (now={float(now)}); {doc.url}")
            if last.start is not None:
                end = None if last.duration is None else last.start + last.duration
                if last.start > now or (end is not None and end < now):
                    sim.violate("live-window-not-covered", f"{subj}/leading",
                                f"last period [{float(last.start)}, {float(end) if end is not None else 'open'}) does not contain now={float(now)}; {doc.url}")

    def on_period_walk(self, actor, walk: dict) -> None:
        sim = self.sim
        doc, period, rep = walk["doc"], walk["period"], walk["rep"]
        sp = urllib.parse.urlsplit(doc.url)
        parts = sp.path.split("/")
        mode, name, tmpl = parts[2], parts[3], parts[4]
        url0 = walk.get("init_url") or (walk["segments"][0][0]["url"] if walk["segments"] else None)
        if url0 is None:
            return
        up = [s for s in urllib.parse.urlsplit(url0).path.split("/") if s]
        # /mps/<mode>/<name>/<ppk>/<rep>/...
        try:
            ppk = int(up[3])
        except (IndexError, ValueError):
            sim.violate("period-url-shape", tmpl, f"{url0}")
            return
        ent = self.period_by_pk.get(ppk)
        if ent is None:
            return
        _, pdef = ent
        stream = pdef["stream"]
        sf = self.index.file_for(stream, rep.id)
        ref = self.index.file_for(stream, self.timing_refs[stream])
        if sf is None or ref is None:
            return
        ctype = walk["aset"].content_type or "?"
        tags = []
        if sf.segments[0].decode_time != 0:
            tags.append("first-decode-time!=0")
        subj = "/".join([mode, walk["mode"], ctype] + (["+".join(tags)] if tags else []))
        sim.check("c12-period-walk")
        # the period's source offset, snapped to the timing reference's segment grid
        want = mpdlib.parse_duration(pdef["start"]) * ref.timescale
        starts = [s.decode_time - ref.segments[0].decode_time for s in ref.segments]
        snapped = min(starts, key=lambda x: (abs(x - want), x))
        offset = Fraction(snapped, ref.timescale) * sf.timescale
        pos = [s.decode_time - sf.segments[0].decode_time for s in sf.segments]
        best = min(abs(p - offset) for p in pos)
        k0s = [i for i, p in enumerate(pos) if abs(p - offset) == best]
        init = walk["init"]
        if init is not None and init.status != 200:
            sim.violate("init-refused", subj, f"{init.status} for {walk.get('init_url')}")
        prev_end = None
        for seg, resp in walk["segments"]:
            k = seg["n"] - (rep.template.start_number or 1)
            cand_idx = [k0 + k for k0 in k0s]
            beyond = all(ci >= len(sf.segments) for ci in cand_idx)
            sim.check("c12-segment")
            if beyond:
                if resp.status != 404:
                    sim.violate("beyond-source-not-404", subj,
                                f"{resp.status} for segment {seg['n']} which lies beyond the source media "
                                f"({len(sf.segments)} stored segments, first is #{k0s[0] + 1}); {seg['url']}")
                break
            if resp.status != 200:
                from ..world import exc_site
                sim.violate("period-segment-refused", subj + (f"/{exc_site(resp.exc)}" if resp.status >= 500 else ""),
                            f"{resp.status} for segment {seg['n']} of period {period.id} (admits "
                            f"{walk.get('admitted', len(walk['segments']))}); {seg['url']}")
                break
            try:
                ms = isobmff.media_segment(resp.body)
            except Exception as err:  # noqa: BLE001
                sim.violate("segment-malformed", subj, f"{err}; {seg['url']}")
                break
            sha = hashlib.sha1(ms.payload).hexdigest()
            okidx = [ci for ci in cand_idx if ci < len(sf.segments) and sf.segments[ci].payload_sha == sha]
            sim.check("c12-payload")
            if not okidx:
                got = [s.index for s in sf.by_sha.get(sha, [])]
                sim.violate("wrong-source-segment", subj,
                            f"number {seg['n']} delivered stored segment(s) {got or 'none'}, expected "
                            f"#{[ci + 1 for ci in cand_idx]} (period source offset {pdef['start']}); {seg['url']}")
                break
            if ms.tfdt is None:
                sim.violate("tfdt-missing", subj, seg["url"])
                break
            dur = ms.total_duration(sf.default_sample_duration) or 0
            sim.check("c12-decode-time")
            if prev_end is None:
                if seg["t"] is None and k == 0 and ms.tfdt[1] != 0:
                    sim.violate("period-decode-time-origin", subj,
                                f"first segment of the period has decode time {ms.tfdt[1]}, expected 0; {seg['url']}")
            elif ms.tfdt[1] != prev_end:
                sim.violate("period-decode-time-gap", subj,
                            f"segment {seg['n']} starts at {ms.tfdt[1]}, previous ended at {prev_end}; {seg['url']}")
                break
            prev_end = ms.tfdt[1] + dur
        if walk.get("beyond") is not None:
            seg, resp = walk["beyond"]
            sim.check("c12-beyond")
            if resp.status != 404:
                sim.violate("beyond-source-not-404", subj, f"{resp.status} for far-away number {seg['n']}; {seg['url']}")


def execute(spec: dict) -> dict:
    template, timing_refs = world_template(spec["world"]["name"])
    simclock.CLOCK.us = spec["t0_us"]
    world, info = worlds.instantiate("run", template, secrets_seed=base.sub_seed(spec["seed"], "secrets"),
                                     share_blobs=True)
    try:
        simclock.CLOCK.us = spec["t0_us"]
        sim = Sim(world, spec["sched_seed"])
        oracle = Oracle(sim, world, spec["world"]["name"], info)
        actors = []
        for a in spec["actors"]:
            if a["kind"] == "manager":
                actors.append(Manager(sim, a))
            else:
                p = MpsPlayer(sim, a)
                p.observers = [oracle]
                actors.append(p)
        sim.run(actors)
        return base.outcome(ID, spec, sim, world, nontrivial=bool(sim.checks.get("c12-segment")),
                            extra={"sim_seconds": (simclock.CLOCK.us - spec["t0_us"]) / 1e6})
    finally:
        world.destroy()
