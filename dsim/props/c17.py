"""C17 — management histories keep the store consistent and the service up.

An authorised manager issues a seeded sequence of management operations (existing and non-existing
targets, repeated names, fixture and forged media, damaged uploads); restarts, duplicated requests and
lost responses are injected.  After every delivered request the durable state is read with a private
sqlite3 connection and checked: referential consistency, unique names, ownership of deletions.  Liveness
and read-back probes ask every listed stream / multi-period stream for manifests and every uploaded and
indexed file for its bytes.
"""
from __future__ import annotations

import hashlib
import json
import urllib.parse
import os

from .. import clock as simclock
from .. import worlds
from ..actors.manager import Manager, rows
from ..oracles import isobmff
from ..sim import Message, Sim
from ..world import Response, exc_site
from . import base
from . import media_common as mc

ID = "C17"
LEVEL = "exploration"


def budget(tier: str) -> dict:
    return {"runs": 800, "wall_s": 70} if tier == "quick" else {"runs": 30000, "wall_s": 840}


def forged_file(rng, name: str, kind: str | None = None) -> dict:
    kind = kind or rng.choice(["video", "video", "audio", "text"])
    ts = rng.choice([1, 25, 600, 1000, 44100, 90000])
    n = rng.randrange(2, 6)
    base_d = rng.choice([1, 2, 4]) * ts
    durs = [max(1, base_d + rng.choice([0, 0, -1, 1, base_d // 2])) for _ in range(n)]
    return {"forge": {"name": name, "kind": kind, "timescale": ts, "durations": durs,
                      "track_id": rng.choice([1, 1, 2, 3, 7]), "tfdt": rng.random() < 0.8,
                      "sidx": rng.random() < 0.3, "styp": rng.random() < 0.3,
                      "base": rng.choice(["moof", "moof", "explicit"]),
                      "first_decode_time": rng.choice([0, 0, 0, 1234])}}


def fname_of(entry: dict) -> str:
    return entry["forge"]["name"] if "forge" in entry else str(entry.get("name", "va"))


def burst_op(rng, names: list[str], fnames: list[str]) -> dict:
    """One management operation of a burst (the objects it names usually exist: the setup creates them)."""
    r = rng.random()
    w = rng.randrange(3)
    if rng.random() < 0.2:
        # a player's request served together with the management operations
        return {"op": "get", "which": w, "what": rng.choice(["manifest", "manifest", "init", "media"]),
                "tmpl": rng.randrange(17), "which_file": rng.randrange(4), "n": rng.randrange(3)}
    if r < 0.18:
        fn = rng.choice(fnames[:3])
        return {"op": "upload", "which": w, "file": forged_file(rng, fn)}
    if r < 0.28:
        return {"op": "delete_media", "which_file": rng.randrange(4), "how": "ajax"}
    if r < 0.36:
        return {"op": "index", "which_file": rng.randrange(4)}
    if r < 0.44:
        return {"op": "edit_media", "which_file": rng.randrange(4), "track_id": rng.choice([1, 2, 3]), "lang": "eng"}
    if r < 0.54:
        return {"op": "add_stream", "dir": rng.choice(names), "title": f"t{rng.randrange(100)}"}
    if r < 0.64:
        return {"op": "edit_stream", "which": w, "title": f"title {rng.randrange(100)}",
                "timing_ref": rng.choice(["first", "first", "none"]), "which_file": rng.randrange(3)}
    if r < 0.72:
        return {"op": "delete_stream", "which": w, "how": "ajax"}
    if r < 0.80:
        return {"op": "add_key", "kid": rng.choice(["%032x" % rng.getrandbits(128), "11" * 16]),
                "key": "%032x" % rng.getrandbits(128)}
    if r < 0.84:
        return {"op": rng.choice(["delete_key", "edit_key"]), "which": w, "key": "%032x" % rng.getrandbits(128)}
    if r < 0.92:
        periods = [{"which": rng.randrange(3), "pid": rng.choice(["p1", "p2"]), "start": "PT0S",
                    "duration": rng.choice(["", "PT2S"])} for _ in range(rng.randrange(1, 3))]
        return {"op": rng.choice(["add_mps", "add_mps", "edit_mps"]), "name": rng.choice(["mone", "mtwo"]),
                "which": w, "title": f"multi {rng.randrange(100)}", "periods": periods}
    if r < 0.96:
        return {"op": "delete_mps", "which": w}
    return {"op": "set_defaults", "which": w, "fields": rng.choice([{"depth": "77"}, {"mup": "5"}])}


def conflict_ops(rng, names: list[str], fnames: list[str]) -> list[dict]:
    """Two or three operations aimed at the same object: the interleavings that matter are those in which one
    request's check (does the name exist? does the row exist?) is separated from its write by another's commit."""
    w = rng.randrange(3)
    k = rng.randrange(4)
    kind = rng.choice(list(range(14)) + [3, 3, 4])      # uploads change rows and files: more of them
    title = f"c{rng.randrange(100)}"
    period = [{"which": w, "pid": "p1", "start": "PT0S", "duration": "PT2S"}]
    if kind == 0:
        name = rng.choice(["mone", "mtwo", "mthree"])
        ops = [{"op": "add_mps", "name": name, "which": w, "title": title, "periods": period},
               {"op": "add_mps", "name": name, "which": w, "title": title + "b", "periods": period}]
    elif kind == 1:
        name = rng.choice(["mtwo", "mthree"])
        ops = [{"op": "add_mps", "name": name, "which": w, "title": title, "periods": period},
               {"op": "edit_mps", "name": name, "which": 0, "title": title + "b", "periods": period}]
    elif kind == 2:
        ops = [{"op": "edit_mps", "name": "mone", "which": 0, "title": title, "periods": period},
               {"op": "delete_stream", "which": w, "how": "ajax"}]
    elif kind == 3:
        fn = rng.choice(fnames[:3])
        ops = [{"op": "upload", "which": w, "file": forged_file(rng, fn)},
               {"op": "upload", "which": rng.choice([w, w, (w + 1) % 3]), "file": forged_file(rng, fn)}]
    elif kind == 4:
        ops = [{"op": "upload", "which": w, "file": forged_file(rng, rng.choice(fnames[:3]))},
               {"op": "delete_stream", "which": w, "how": "ajax"}]
    elif kind == 5:
        d = rng.choice(names + ["delta"])
        ops = [{"op": "add_stream", "dir": d, "title": title}, {"op": "add_stream", "dir": d, "title": title + "b"}]
    elif kind == 6:
        d = rng.choice(["delta", "epsilon"])
        ops = [{"op": "add_stream", "dir": d, "title": title},
               {"op": "edit_stream", "which": w, "title": title + "b", "timing_ref": "first", "which_file": 0,
                "directory": d}]
    elif kind == 7:
        ops = [{"op": "delete_media", "which_file": k, "how": "ajax"},
               {"op": "edit_stream", "which": w, "title": title, "timing_ref": "first", "which_file": k}]
    elif kind == 8:
        ops = [{"op": "delete_media", "which_file": k, "how": "ajax"},
               {"op": rng.choice(["index", "edit_media", "delete_media"]), "which_file": k, "track_id": 2,
                "lang": "eng", "how": "ajax"}]
    elif kind == 9:
        kid = "%032x" % rng.getrandbits(128)
        ops = [{"op": "add_key", "kid": kid, "key": "%032x" % rng.getrandbits(128)},
               {"op": "add_key", "kid": kid, "key": "%032x" % rng.getrandbits(128)}]
    elif kind == 10:
        ops = [{"op": "delete_key", "which": w, "key": ""},
               {"op": rng.choice(["edit_key", "delete_key"]), "which": w, "key": "%032x" % rng.getrandbits(128)}]
    elif kind == 11:
        ops = [{"op": "delete_mps", "which": 0},
               {"op": rng.choice(["edit_mps", "delete_mps"]), "name": "mone", "which": 0, "title": title,
                "periods": period}]
    elif kind == 12:
        ops = [{"op": "delete_stream", "which": w, "how": "ajax"},
               {"op": rng.choice(["delete_stream", "edit_stream", "set_defaults"]), "which": w, "how": "ajax",
                "title": title, "timing_ref": "first", "which_file": 0, "fields": {"depth": "77"}}]
    else:
        ops = [{"op": "delete_stream", "which": w, "how": "ajax"},
               {"op": "add_mps", "name": "mtwo", "which": w, "title": title, "periods": period}]
    if rng.random() < 0.25:
        ops.append(burst_op(rng, names, fnames))
    rng.shuffle(ops)
    return ops


def generate_burst(seed: int, tier: str, index: int, bursts=(1, 1, 2), conflict_p: float = 0.45) -> dict:
    """Second stage: management operations served concurrently under the pre-emptive scheduler."""
    rng = base.rng_for(seed, "gen-burst")
    t0 = simclock.SimClock.parse(rng.choice(mc.T0_CHOICES))
    names = ["alpha", "beta", "fza"]
    fnames = ["va", "vb", "aa", "fza_v1"]
    script = [{"op": "auth"}]
    if rng.random() < 0.7:
        script.append({"op": "add_stream", "dir": "alpha", "title": "A"})
    for _ in range(rng.randrange(0, 3)):
        script.append({"op": "upload", "which": rng.randrange(2), "file": forged_file(rng, rng.choice(fnames[:3]))})
        script.append({"op": "index", "which_file": -1})
    if rng.random() < 0.4:
        script.append({"op": "add_mps", "name": "mone", "title": "multi", "periods": [
            {"which": 0, "pid": "p1", "start": "PT0S", "duration": "PT2S"}]})
    for _ in range(rng.choice(list(bursts))):
        n = rng.choice([2, 2, 2, 3])
        if rng.random() < conflict_p:
            reqs = conflict_ops(rng, names, fnames)
        else:
            reqs = [burst_op(rng, names, fnames) for _ in range(n)]
        script.append({"op": "burst", "requests": reqs,
                       "sched": rng.getrandbits(32), "same_token": rng.random() < 0.15})
        if rng.random() < 0.3:
            script.append({"op": "probe", "n": 2})
    script.append({"op": "probe", "n": 2})
    script.append({"op": "readback"})
    mgr = {"id": "mgr", "kind": "burster", "role": "media", "prng": rng.getrandbits(32),
           "latency": {"min_us": 1000, "jitter_us": 0}, "script": script}
    return {"property": ID, "seed": seed, "index": index, "tier": tier, "hashseed": index % base.HASHSEEDS,
            "t0_us": t0, "sched_seed": rng.getrandbits(32), "family": "burst",
            "world": {"template": rng.choice(["small", "small", "empty"])}, "actors": [mgr]}


def generate_crash(seed: int, tier: str, index: int) -> dict:
    """Crash points: a management request dies at its k-th seam (k enumerated by the run index), the server
    restarts on what survived on disk."""
    rng = base.rng_for(seed, "gen-crash")
    t0 = simclock.SimClock.parse(rng.choice(mc.T0_CHOICES))
    names = ["alpha", "beta", "fza"]
    fnames = ["va", "vb", "aa", "fza_v1"]
    script = [{"op": "auth"}]
    if rng.random() < 0.6:
        script.append({"op": "add_stream", "dir": "alpha", "title": "A"})
    for _ in range(rng.randrange(0, 3)):
        script.append({"op": "upload", "which": rng.randrange(2), "file": forged_file(rng, rng.choice(fnames[:3]))})
        script.append({"op": "index", "which_file": -1})
    k = 2 + (index // 8) % 26
    uploaded = [st["file"] for st in script if st["op"] == "upload"]
    for _ in range(rng.choice([1, 1, 2])):
        op = burst_op(rng, names, fnames)
        while op["op"] == "get":
            op = burst_op(rng, names, fnames)
        r = rng.random()
        if r < 0.3 and uploaded:
            # an upload that replaces a stored file - of the same stream or of another one
            prev = rng.choice(uploaded)
            op = {"op": "upload", "which": rng.randrange(3), "file": forged_file(rng, fname_of(prev))}
        elif r < 0.45:
            op = rng.choice([{"op": "delete_media", "which_file": rng.randrange(4), "how": "ajax"},
                             {"op": "delete_stream", "which": rng.randrange(3), "how": "ajax"},
                             {"op": "edit_stream", "which": rng.randrange(3), "title": "renamed", "timing_ref": "first",
                              "which_file": 0, "directory": rng.choice(["delta", "alpha"])}])
        script.append({"op": "crash", "request": op, "at": k})
        script.append({"op": "probe", "n": 2})
        k = 2 + rng.randrange(26)
    script.append({"op": "readback"})
    mgr = {"id": "mgr", "kind": "burster", "role": "media", "prng": rng.getrandbits(32),
           "latency": {"min_us": 1000, "jitter_us": 0}, "script": script}
    return {"property": ID, "seed": seed, "index": index, "tier": tier, "hashseed": index % base.HASHSEEDS,
            "t0_us": t0, "sched_seed": rng.getrandbits(32), "family": "crash",
            "world": {"template": rng.choice(["small", "small", "empty"])}, "actors": [mgr]}


def generate(seed: int, tier: str, index: int) -> dict:
    if index % 8 == 7:
        return generate_crash(seed, tier, index)
    if index % 4 == 3:
        return generate_burst(seed, tier, index)
    rng = base.rng_for(seed, "gen")
    t0 = simclock.SimClock.parse(rng.choice(mc.T0_CHOICES))
    names = ["alpha", "beta", "fza", "gamma9"]
    fnames = ["va", "vb", "aa", "ta", "fza_v1", "fza_a1"]
    script = [{"op": "auth"}]
    n = rng.randrange(4, 28)
    for i in range(n):
        r = rng.random()
        ghost = rng.random() < 0.08
        w = rng.randrange(8)
        if r < 0.10:
            script.append({"op": "add_stream", "dir": rng.choice(names), "title": rng.choice(["T", "title <b>", names[0]])})
        elif r < 0.17:
            script.append({"op": "edit_stream", "which": w, "ghost": ghost, "title": f"title {i}",
                           "timing_ref": rng.choice(["first", "first", "none", "bogus", "foreign"]),
                           "which_file": rng.randrange(4), "directory": rng.choice(names)})
        elif r < 0.24:
            script.append({"op": "delete_stream", "which": w, "ghost": ghost, "how": rng.choice(["ajax", "rest", "form"])})
        elif r < 0.42:
            fn = rng.choice(fnames)
            entry = rng.choice([forged_file(rng, fn), forged_file(rng, fn), forged_file(rng, fn), "bbb/bbb_t1.mp4",
                                "bbb/bbb_v7_enc.mp4", "bbb/bbb_a1_enc.mp4"])     # the two encrypted files share a key
            st = {"op": "upload", "which": w, "ghost": ghost, "file": entry}
            if rng.random() < 0.1:
                st["truncate"] = rng.choice([1, 7, 40, 200])
            script.append(st)
            if rng.random() < 0.8:
                script.append({"op": "index", "which_file": -1})
        elif r < 0.50:
            script.append({"op": "index", "which_file": w, "ghost": ghost})
        elif r < 0.57:
            script.append({"op": "edit_media", "which_file": w, "ghost": ghost, "track_id": rng.choice([1, 2, 3, 9]),
                           "lang": rng.choice(["eng", "fr", "und", "zz-invalid-tag"])})
        elif r < 0.64:
            script.append({"op": "delete_media", "which_file": w, "ghost": ghost,
                           "how": rng.choice(["ajax", "form", "delete-route"])})
        elif r < 0.70:
            kid = "%032x" % rng.getrandbits(128) if rng.random() < 0.7 else "1ab45440532c439994dc5c5ad9584bac"
            script.append({"op": "add_key", "kid": kid, "key": rng.choice([None, "%032x" % rng.getrandbits(128)])})
        elif r < 0.74:
            script.append({"op": rng.choice(["delete_key", "edit_key"]), "which": w, "ghost": ghost,
                           "key": "%032x" % rng.getrandbits(128)})
        elif r < 0.82:
            periods = [{"which": rng.randrange(4), "pid": rng.choice(["p1", "p2", "p1"]),
                        "start": rng.choice(["PT0S", "PT1S", "PT2.5S", "PT100S"]),
                        "duration": rng.choice(["", "PT2S", "PT4S", "PT3.3S", "PT400S"]),
                        "ghost": rng.random() < 0.1, "no_tracks": rng.random() < 0.1}
                       for _ in range(rng.randrange(0, 4))]
            script.append({"op": "add_mps", "name": rng.choice(["mone", "mtwo", "mone"]), "title": "multi", "periods": periods})
        elif r < 0.87:
            periods = [{"which": rng.randrange(4), "pid": rng.choice(["p1", "p2", "p3"]),
                        "start": rng.choice(["PT0S", "PT1S"]), "duration": rng.choice(["", "PT2S", "PT5S"]),
                        "ghost": rng.random() < 0.1} for _ in range(rng.randrange(0, 3))]
            script.append({"op": "edit_mps", "which": w, "ghost": ghost, "title": f"edited {i}", "periods": periods,
                           **({"name": rng.choice(["mone", "mtwo", "mthree"])} if rng.random() < 0.3 else {})})
        elif r < 0.91:
            script.append({"op": "delete_mps", "which": w, "ghost": ghost})
        elif r < 0.94:
            script.append({"op": "set_defaults", "which": w, "ghost": ghost,
                           "fields": rng.choice([{"depth": "77"}, {"drm_playready": "on", "playready__drmloc": "moov"},
                                                 {"events": "ping"}, {"start": "epoch", "mup": "5"}])})
        elif r < 0.97:
            script.append({"op": "restart"})
        else:
            script.append({"op": "probe", "n": 2})
    script.append({"op": "probe", "n": 3})
    script.append({"op": "readback"})
    mgr = {"id": "mgr", "kind": "manager", "role": "media", "prng": rng.getrandbits(32),
           "latency": {"min_us": 1000, "jitter_us": rng.choice([0, 100_000])}, "script": script}
    if rng.random() < 0.35:
        mgr["faults"] = [{"msg": rng.randrange(6, 60), "kind": rng.choice(["net.dup", "net.drop_resp"])}
                         for _ in range(rng.randrange(1, 3))]
    actors = [mgr]
    return {"property": ID, "seed": seed, "index": index, "tier": tier, "hashseed": index % base.HASHSEEDS,
            "t0_us": t0, "sched_seed": rng.getrandbits(32),
            "world": {"template": rng.choice(["empty", "small", "small"])}, "actors": actors}


# ------------------------------------------------------------------------------------------ oracle
def table_dicts(state: dict, table: str) -> list[dict]:
    t = state["tables"].get(table) or []
    if not t:
        return []
    return [dict(zip(t[0], r)) for r in t[1:]]


def referential_violations(state: dict, blob_dir) -> list[tuple[str, str]]:
    out: list[tuple[str, str]] = []
    streams = {r["pk"]: r for r in table_dicts(state, "Stream")}
    blobs = {r["pk"]: r for r in table_dicts(state, "Blob")}
    mfs = {r["pk"]: r for r in table_dicts(state, "media_file")}
    keys = {r["pk"]: r for r in table_dicts(state, "key")}
    mps = {r["pk"]: r for r in table_dicts(state, "mp_stream")}
    periods = {r["pk"]: r for r in table_dicts(state, "period")}
    ctypes = {r["pk"]: r for r in table_dicts(state, "content_type")}
    files = state["blobs"]
    for m in mfs.values():
        if m["stream"] not in streams:
            out.append(("mediafile-without-stream", f"media_file {m['pk']} ({m['name']}) -> stream {m['stream']}"))
        if m["blob"] not in blobs:
            out.append(("mediafile-without-blob", f"media_file {m['pk']} ({m['name']}) -> blob {m['blob']}"))
        else:
            st = streams.get(m["stream"])
            if st is not None:
                rel = f"{st['directory']}/{blobs[m['blob']]['filename']}"
                if rel not in files:
                    out.append(("mediafile-without-file", f"media_file {m['pk']} ({m['name']}): no file {rel}"))
                else:
                    # the blob row is the store's description of the bytes: size and SHA-1 recorded with the upload
                    b = blobs[m["blob"]]
                    size, sha = files[rel]
                    if (b.get("size") is not None and b["size"] != size) or \
                            (b.get("sha1_hash") and not str(b["sha1_hash"]).lower().startswith(sha)):
                        out.append(("blob-describes-other-bytes",
                                    f"media_file {m['pk']} ({m['name']}): blob row says {b.get('size')} bytes, sha1 "
                                    f"{str(b.get('sha1_hash'))[:12]}; the stored file {rel} has {size} bytes, sha1 {sha}"))
    for link in table_dicts(state, "mediafile_keys"):
        vals = list(link.values())
        if link.get("media_pk", vals[0]) not in mfs and link.get("media_file_pk", vals[0]) not in mfs:
            out.append(("keylink-without-mediafile", f"{link}"))
        kcol = link.get("key_pk", vals[-1])
        if kcol not in keys:
            out.append(("keylink-without-key", f"{link}"))
    for p in periods.values():
        if p["stream_pk"] not in streams:
            out.append(("period-without-stream", f"period {p['pk']} ({p['pid']}) -> stream {p['stream_pk']}"))
        if p["parent_pk"] not in mps:
            out.append(("period-without-parent", f"period {p['pk']} ({p['pid']}) -> mp_stream {p['parent_pk']}"))
    for a in table_dicts(state, "adaptation_set"):
        if a["period_pk"] not in periods:
            out.append(("adaptationset-without-period", f"adaptation_set {a['pk']} -> period {a['period_pk']}"))
        if a["content_type_pk"] not in ctypes:
            out.append(("adaptationset-without-contenttype", f"adaptation_set {a['pk']}"))
    for s in streams.values():
        tr = s.get("timing_reference")
        if tr:
            try:
                name = json.loads(tr).get("media_name")
            except (ValueError, AttributeError):
                name = None
            if not any(m["name"] == name and m["stream"] == s["pk"] for m in mfs.values()):
                out.append(("timingref-dangling", f"stream {s['pk']} ({s['directory']}) timing_ref -> {name!r}"))
    for table, col in (("Stream", "directory"), ("media_file", "name"), ("Blob", "filename"), ("key", "hkid"),
                       ("mp_stream", "name"), ("User", "username")):
        vals = [r[col] for r in table_dicts(state, table)]
        if len(vals) != len(set(vals)):
            out.append(("duplicate-name", f"{table}.{col}: {sorted(v for v in vals if vals.count(v) > 1)}"))
    return out


class Oracle:
    def __init__(self, sim: Sim) -> None:
        self.sim = sim
        self.world = sim.world
        self.before: dict | None = None
        self.known_bad: set[str] = set()

    def before_delivery(self, msg: Message) -> None:
        self.before = self.world.state()

    def after_delivery(self, msg: Message, resp: Response) -> None:
        sim = self.sim
        after = self.world.state()
        before, self.before = self.before, None
        op = getattr(msg.actor, "current_op", None) or {}
        opname = op.get("op", "?")
        if resp.status >= 500 and not isinstance(resp.exc, type(None)):
            sim.world.probe(f"c17.management-5xx/{opname}")
        sim.check("c17-referential")
        for rule, detail in referential_violations(after, self.world.blob_dir):
            key = f"{rule}|{detail}"
            if key in self.known_bad:
                continue       # report each broken reference once, at the step that introduced it
            self.known_bad.add(key)
            sim.violate(rule, f"after={opname}", f"{detail}; introduced by {msg.method} {msg.url} -> {resp.status}")
        if before is None:
            return
        # a write to one multi-period stream leaves the periods of every other one alone
        if opname in ("add_mps", "edit_mps") and msg.method in ("PUT", "POST"):
            pb = {r["pk"]: r for r in table_dicts(before, "period")}
            pa = {r["pk"]: r for r in table_dicts(after, "period")}
            touched = {(pa.get(k) or pb.get(k))["parent_pk"] for k in set(pa) | set(pb) if pa.get(k) != pb.get(k)}
            touched |= {pb[k]["parent_pk"] for k in pb if k in pa and pa[k]["parent_pk"] != pb[k]["parent_pk"]}
            name = urllib.parse.unquote(urllib.parse.urlsplit(msg.url).path.rsplit("/", 1)[-1])
            try:
                body_name = json.loads(msg.body or b"{}").get("name")
            except (ValueError, AttributeError):
                body_name = None
            mine = {r["pk"] for st in (before, after) for r in table_dicts(st, "mp_stream")
                    if r["name"] in (name, body_name)}
            sim.check("c17-mps-write-scope")
            foreign = touched - mine
            if foreign:
                sim.violate("mps-write-touched-foreign-period", opname,
                            f"{msg.method} {msg.url} (name {body_name or name!r}) changed periods of multi-period "
                            f"stream(s) {sorted(foreign)}")
        # ownership of deletions
        if msg.method in ("DELETE", "POST") and opname.startswith("delete"):
            removed = {}
            for t in ("Stream", "media_file", "Blob", "key", "mp_stream", "period", "adaptation_set", "User"):
                b = {r["pk"]: r for r in table_dicts(before, t)}
                a = {r["pk"]: r for r in table_dicts(after, t)}
                gone = [b[k] for k in b if k not in a]
                if gone:
                    removed[t] = gone
            if removed:
                sim.check("c17-deletion-ownership")
                self.check_ownership(opname, removed, before, msg)

    def check_ownership(self, opname: str, removed: dict, before: dict, msg: Message) -> None:
        sim = self.sim
        mfs_before = {r["pk"]: r for r in table_dicts(before, "media_file")}
        allowed: dict[str, set] = {}
        if opname == "delete_stream":
            spks = {r["pk"] for r in removed.get("Stream", [])}
            m = {pk for pk, r in mfs_before.items() if r["stream"] in spks}
            # Periods that play the stream cannot outlive it (the alternative, refusing the delete, removes nothing)
            prd = {r["pk"] for r in table_dicts(before, "period") if r["stream_pk"] in spks}
            ads = {r["pk"] for r in table_dicts(before, "adaptation_set") if r["period_pk"] in prd}
            allowed = {"Stream": spks, "media_file": m, "Blob": {mfs_before[pk]["blob"] for pk in m},
                       "period": prd, "adaptation_set": ads}
        elif opname == "delete_media":
            m = {r["pk"] for r in removed.get("media_file", [])}
            allowed = {"media_file": m, "Blob": {mfs_before[pk]["blob"] for pk in m if pk in mfs_before}}
            if len(m) > 1:
                sim.violate("deletion-removed-unowned", "delete_media/media_file",
                            f"one delete removed {len(m)} media files; {msg.method} {msg.url}")
        elif opname == "delete_key":
            allowed = {"key": {r["pk"] for r in removed.get("key", [])}}
            if len(allowed["key"]) > 1:
                sim.violate("deletion-removed-unowned", "delete_key/key", f"{msg.url}")
        elif opname == "delete_mps":
            mp = {r["pk"] for r in removed.get("mp_stream", [])}
            prd = {r["pk"] for r in table_dicts(before, "period") if r["parent_pk"] in mp}
            ads = {r["pk"] for r in table_dicts(before, "adaptation_set") if r["period_pk"] in prd}
            allowed = {"mp_stream": mp, "period": prd, "adaptation_set": ads}
        for t, gone in removed.items():
            extra = [r for r in gone if r["pk"] not in allowed.get(t, set())]
            if extra:
                sim.violate("deletion-removed-unowned", f"{opname}/{t}",
                            f"{opname} removed rows it does not own from {t}: {str(extra)[:400]}; {msg.method} {msg.url}")

    # -- second stage: a management request that dies at one of its seams
    def on_crash(self, actor, st: dict, req: dict, outcome: dict) -> None:
        sim = self.sim
        op = req["recipe"]["op"]
        sim.check("c17-crash-point")
        if not outcome["crashed"]:
            sim.world.probe("c17.crash-point-beyond-request")
            return
        label = (outcome["label"] or "?").replace("sql:", "")
        sim.world.probe(f"c17.crashed/{op}")
        if op in ("upload", "edit_media", "delete_media", "delete_stream"):
            self.crashed_in = op       # these touch the blob store: read-back subjects carry the regime from now on
        for rule, detail in referential_violations(outcome["state"], self.world.blob_dir):
            key = f"{rule}|{detail}"
            if key in self.known_bad:
                continue
            self.known_bad.add(key)
            sim.violate(rule, f"after=crash:{op}@{label}",
                        f"{detail}; the server died at seam {st.get('at')} ({outcome['label']}) of "
                        f"{req['method']} {req['url'][:120]} and was restarted")

    # -- second stage: a burst of concurrent management requests
    def on_burst(self, actor, st: dict, reqs: list[dict], outcome: dict) -> None:
        sim = self.sim
        ops = "+".join(sorted(r["recipe"]["op"] for r in reqs)) + ("/same-token" if st.get("same_token") else "")
        sim.check("c17-burst")
        if sum(1 for r in reqs if r["recipe"]["op"] == "upload") >= 2:
            self.concurrent_uploads = True
        if outcome.get("interleaved"):
            sim.world.probe("c17.burst-interleaved")
        for rule, detail in referential_violations(outcome["state"], self.world.blob_dir):
            key = f"{rule}|{detail}"
            if key in self.known_bad:
                continue
            self.known_bad.add(key)
            sim.violate(rule, f"after=burst:{ops}", f"{detail}; after the concurrent requests "
                                                     f"{[r['method'] + ' ' + r['url'][:80] for r in reqs]} answered "
                                                     f"{[r.status for r in outcome['results']]}; schedule "
                                                     f"{[(t, l) for t, l in outcome['schedule']][:80]}")
        # a listed stream serves its manifests and media or fails with a clean 4xx - also while it is being modified
        for req, resp in zip(reqs, outcome["results"]):
            if req["recipe"]["op"] == "get" and resp.status >= 500 and reqs.index(req) not in outcome["aborted"]:
                from ..world import exc_site
                others = "+".join(sorted(r["recipe"]["op"] for r in reqs if r is not req))
                sim.violate("listed-5xx", f"{req['recipe'].get('what')}/{exc_site(resp.exc)}/during-burst:{others}",
                            f"{resp.status} for GET {req['url']} served concurrently with {others}: "
                            f"{type(resp.exc).__name__ if resp.exc else ''}: {str(resp.exc)[:200]}")
        # what the concurrent requests answered (5xx: C16's subject) and whether the outcome equals some sequential
        # order (no listed property states it in general; C15 judges the CSRF part) are counted, not judged here
        for i, resp in enumerate(outcome["results"]):
            if resp.status >= 500 and i not in outcome["aborted"]:
                sim.world.probe("c17.burst-5xx")
        if outcome.get("linearizable") is False:
            sim.world.probe("c17.burst-not-linearizable")
        elif outcome.get("linearizable"):
            sim.world.probe("c17.burst-linearizable")

    # -- observers of the manager's probes
    def on_probe(self, actor, kind: str, name: str, tmpl: str, mode: str, url: str, resp: Response) -> None:
        sim = self.sim
        sim.check("c17-liveness")
        if resp.status >= 500:
            exc = f"{type(resp.exc).__name__}: {resp.exc}" if resp.exc is not None else ""
            sim.violate("listed-5xx", f"{kind}/{exc_site(resp.exc)}",
                        f"listed {kind} {name!r} answered {resp.status} for {url}: {exc[:300]}")
        elif resp.status == 200:
            sim.world.probe("c17.manifest-200")
        else:
            sim.world.probe(f"c17.manifest-{resp.status}")

    def rb(self, subject: str) -> str:
        """Read-back subjects carry a regime tag once uploads have been served concurrently in this run."""
        return subject + ("/after-concurrent-upload" if getattr(self, "concurrent_uploads", False) else "") + \
            ("/after-crash-in-" + self.crashed_in if getattr(self, "crashed_in", None) else "")

    def on_readback_unknown(self, actor, directory: str, name: str) -> None:
        self.sim.check("c17-readback")
        self.sim.violate("readback-unknown-bytes", self.rb("stored"),
                         f"the stored file of {directory}/{name} carries payloads of no upload")

    def on_readback(self, actor, directory: str, name: str, how: str, url: str, resp: Response, rec: dict) -> None:
        sim = self.sim
        sim.check("c17-readback")
        if resp.status >= 500:
            sim.violate("readback-5xx", self.rb(how.split("#")[0]), f"{resp.status} for {url}")
            return
        if resp.status not in (200, 206):
            sim.violate("readback-refused", self.rb(how.split("#")[0]),
                        f"uploaded and indexed file {directory}/{name} answered {resp.status} for {url}")
            return
        if how == "odvod":
            blob_files = sorted((self.world.blob_dir / directory).glob("*"))
            ok = any(p.is_file() and p.read_bytes() == resp.body for p in blob_files)
            if not ok:
                sim.violate("readback-bytes", self.rb("odvod"), f"{url}: body ({len(resp.body)} bytes) equals no stored file")
        else:
            try:
                seg = isobmff.media_segment(resp.body)
            except Exception as err:  # noqa: BLE001
                sim.violate("readback-malformed", self.rb("vod"), f"{url}: {err}")
                return
            sha = hashlib.sha1(seg.payload).hexdigest()
            if rec.get("payloads") and sha not in rec["payloads"]:
                sim.violate("readback-payload", self.rb("vod"), f"{url}: payload is none of the uploaded file's segments")


def execute(spec: dict) -> dict:
    from .c15 import small_world
    template = small_world() if spec["world"]["template"] == "small" else {"streams": []}
    simclock.CLOCK.us = spec["t0_us"]
    world, info = worlds.instantiate("run", template, secrets_seed=base.sub_seed(spec["seed"], "secrets"))
    try:
        simclock.CLOCK.us = spec["t0_us"]
        if spec.get("family") in ("burst", "crash"):
            # second stage: every connection parks at each statement while a burst is running
            world.stop()
            world.preemptive = True
            world.start()
        sim = Sim(world, spec["sched_seed"])
        oracle = Oracle(sim)
        sim.before_delivery = oracle.before_delivery
        sim.after_delivery = oracle.after_delivery
        actors = []
        for a in spec["actors"]:
            from ..actors.burster import Burster
            m = (Burster if a["kind"] == "burster" else Manager)(sim, a)
            m.observers = [oracle]
            actors.append(m)
        sim.run(actors)
        return base.outcome(ID, spec, sim, world, nontrivial=bool(sim.checks.get("c17-referential", 0) > 8),
                            extra={"sim_seconds": (simclock.CLOCK.us - spec["t0_us"]) / 1e6,
                                   "counters": {f"family.{spec.get('family', 'atomic')}": 1}})
    finally:
        world.destroy()
