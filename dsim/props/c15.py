"""C15 — only authorised roles can change persistent state; CSRF tokens are single-use, service- and
cookie-bound and tamper-proof.

Route-agnostic state oracle: the committed content of every table (Token excluded) and the blob directory
are compared before and after every delivered request; each difference is attributed to the requesting
actor (requests are atomic) and must be permitted by the documented policy for that actor's role.
"""
from __future__ import annotations

import urllib.parse

from .. import clock as simclock
from .. import worlds
from ..actors.intruder import CsrfProbe, Intruder, RECIPES, discover_ids
from ..sim import Message, Sim
from ..world import Response, diff_state
from . import base
from . import media_common as mc

ID = "C15"
LEVEL = "exploration"
ASSUMPTIONS = ["cookie-session login is provided by a shim of Flask-Login 0.6.3 (session['_user_id']); JWT paths use "
               "the real Flask-JWT-Extended"]

MEDIA_TABLES = {"Stream", "media_file", "Blob", "key", "mediafile_keys", "media_file_error", "mp_stream", "period",
                "adaptation_set"}
AUTHENTICATED = {"user", "media", "admin"}


def budget(tier: str) -> dict:
    return {"runs": 900, "wall_s": 70} if tier == "quick" else {"runs": 30000, "wall_s": 840}


def small_world() -> dict:
    fz = mc.forge_presets()[0]
    return {
        "streams": [fz],
        "mps": [{"name": "mps1", "title": "multi one", "periods": [
            {"pid": "p1", "stream": "fza", "start": "PT0S", "duration": "PT6S",
             "tracks": [{"track_id": 1, "role": "main", "lang": "und", "encrypted": False}]}]}],
    }


SAME_SERVICE_PAIRS = [
    # (service, operations that all take a token of that service)
    ("keys", [{"op": "add_key", "kid": "a1" * 16, "key": "b1" * 16}, {"op": "add_key", "kid": "a2" * 16, "key": "b2" * 16},
              {"op": "delete_key", "which": 0}, {"op": "add_key", "kid": "a3" * 16, "key": None}]),
    ("streams", [{"op": "add_stream", "dir": "raceone", "title": "r1"}, {"op": "add_stream", "dir": "racetwo", "title": "r2"},
                 {"op": "edit_stream", "which": 0, "title": "renamed by the burst"},
                 {"op": "delete_stream", "which": 0, "how": "ajax"}]),
    ("files", [{"op": "index", "which_file": 0}, {"op": "index", "which_file": 1},
               {"op": "delete_media", "which_file": 0, "how": "ajax"}, {"op": "delete_media", "which_file": 1, "how": "ajax"}]),
]


def generate_burst(seed: int, tier: str, index: int) -> dict:
    """Second stage: one CSRF token submitted by several requests that are served concurrently."""
    rng = base.rng_for(seed, "gen-burst")
    t0 = simclock.SimClock.parse(rng.choice(mc.T0_CHOICES))
    script = [{"op": "auth"}]
    for _ in range(rng.choice([1, 1, 2])):
        service, ops = rng.choice(SAME_SERVICE_PAIRS)
        n = rng.choice([2, 2, 3])
        reqs = [dict(o) for o in rng.sample(ops, n)]
        script.append({"op": "burst", "requests": reqs, "sched": rng.getrandbits(32), "same_token": True,
                       "service": service})
        if rng.random() < 0.6:
            # the token of the burst once more, after the dust has settled: whatever the race left behind, it was used
            script.append({"op": "replay", "which": rng.randrange(n)})
    actor = {"id": "probe", "kind": "burster", "role": rng.choice(["media", "media", "admin"]),
             "prng": rng.getrandbits(32), "latency": {"min_us": 1000, "jitter_us": 0}, "script": script}
    return {"property": ID, "seed": seed, "index": index, "tier": tier, "hashseed": index % base.HASHSEEDS,
            "t0_us": t0, "sched_seed": rng.getrandbits(32), "family": "burst", "world": {"template": "small"},
            "actors": [actor]}


def generate(seed: int, tier: str, index: int) -> dict:
    if index % 6 == 5:
        return generate_burst(seed, tier, index)
    rng = base.rng_for(seed, "gen")
    t0 = simclock.SimClock.parse(rng.choice(mc.T0_CHOICES))
    actors = []
    n_rules = 90
    # intruders
    for i in range(rng.choice([1, 1, 2])):
        role = rng.choice(["anonymous", "guest-jwt", "user", "user", "media-vs-users"])
        real_role = "media" if role == "media-vs-users" else role
        script = [{"op": "auth"}, {"op": "harvest"}]
        for _ in range(rng.randrange(3, 12)):
            if rng.random() < 0.65:
                names = RECIPES if role != "media-vs-users" else ["add-user", "edit-other-user", "delete-user",
                                                                  "edit-own-user"]
                script.append({"op": "recipe", "name": rng.choice(names), "variant": rng.randrange(6)})
            else:
                script.append({"op": "sweep", "rule": rng.randrange(n_rules),
                               "method": rng.choice(["GET", "HEAD", "POST", "PUT", "DELETE"]),
                               "variant": rng.randrange(6)})
            if rng.random() < 0.1:
                script.append({"op": "harvest"})
        a = {"id": f"intr{i + 1}", "kind": "intruder", "role": real_role, "prng": rng.getrandbits(32),
             "latency": {"min_us": 1000, "jitter_us": rng.choice([0, 50_000, 2_000_000])}, "script": script}
        if rng.random() < 0.3:
            a["faults"] = [{"msg": rng.randrange(12, 40), "kind": rng.choice(["net.dup", "net.drop_resp"])}]
        actors.append(a)
    # CSRF probe
    if rng.random() < 0.7:
        script = [{"op": "auth"}, {"op": "harvest"}]
        if rng.random() < 0.6:
            script.append({"op": "alt-session"})
        for _ in range(rng.randrange(2, 9)):
            r = rng.random()
            if r < 0.12:
                script.append({"op": "restart"})
            elif r < 0.2:
                script.append({"op": "jump", "us": rng.choice([60, 1199, 1201, 3600, 86400]) * 1_000_000})
            else:
                script.append({"op": "use",
                               "target": rng.choice(["edit-stream", "add-key", "edit-defaults", "add-stream", "add-mps"]),
                               "token": rng.choice(["fresh", "fresh", "reuse", "reuse", "cross-service", "cross-cookie",
                                                    "tamper-char", "tamper-trunc", "salt-swap"])})
        if rng.random() < 0.35:
            # directed placement: a token is used, the clock passes the 20-minute lifetime of its Token row (or the
            # server restarts, or both), and the very same token is presented again
            target = rng.choice(["edit-stream", "add-key", "edit-defaults", "add-stream", "add-mps"])
            script.append({"op": "use", "target": target, "token": "fresh"})
            for _ in range(rng.choice([1, 1, 2])):
                script.append(rng.choice([{"op": "jump", "us": rng.choice([1199, 1201, 1260, 7200]) * 1_000_000}] * 3 +
                                         [{"op": "restart"}]))
            script.append({"op": "use", "target": target, "token": "reuse", "stale_cookies": rng.random() < 0.6})
        a = {"id": "probe", "kind": "csrfprobe", "role": rng.choice(["media", "media", "admin"]),
             "prng": rng.getrandbits(32), "latency": {"min_us": 1000, "jitter_us": rng.choice([0, 100_000])},
             "script": script}
        if rng.random() < 0.4:
            a["faults"] = [{"msg": rng.randrange(14, 45), "kind": "net.dup"}]
        actors.append(a)
    # legitimate manager traffic
    if rng.random() < 0.5:
        script = [{"op": "auth"}, {"op": "harvest"}]
        for _ in range(rng.randrange(1, 6)):
            script.append({"op": "recipe", "name": rng.choice(
                ["add-stream", "edit-stream", "edit-defaults", "add-key", "upload", "add-mps", "index-media"]),
                "variant": rng.randrange(6)})
        actors.append({"id": "mgr", "kind": "intruder", "role": "media", "prng": rng.getrandbits(32),
                       "latency": {"min_us": 1000, "jitter_us": 300_000}, "script": script})
    if rng.random() < 0.25:
        actors.append({"id": "chaos", "kind": "intruder", "role": "anonymous", "prng": 0,
                       "script": [{"op": "sleep", "us": rng.randrange(0, 4_000_000)}, {"op": "restart"}]})
    return {"property": ID, "seed": seed, "index": index, "tier": tier, "hashseed": index % base.HASHSEEDS,
            "t0_us": t0, "sched_seed": rng.getrandbits(32), "world": {"template": "small"}, "actors": actors}


class BurstOracle:
    """A CSRF token is accepted at most once - also when its uses are served at the same time."""

    def __init__(self, sim: Sim) -> None:
        self.sim = sim
        self.last_token: str | None = None
        self.last_accepted = False
        self.last_statuses: list[int] = []

    @staticmethod
    def plain(t: str) -> str:
        for _ in range(4):
            t2 = urllib.parse.unquote(t)
            if t2 == t:
                break
            t = t2
        return t

    def on_burst(self, actor, st: dict, reqs: list[dict], outcome: dict) -> None:
        from ..actors.burster import token_of
        sim = self.sim
        tok = token_of(reqs[0])
        self.last_token = None
        if st.get("same_token") and tok is not None and all(token_of(r) == tok for r in reqs):
            self.last_token = tok
            # the durable state changed: some request of the burst got past the token check
            self.last_accepted = bool(outcome.get("changed"))
            self.last_statuses = [r.status for r in outcome["results"]]
        if not st.get("same_token") or tok is None or any(token_of(r) != tok for r in reqs):
            return
        sim.check("c15-csrf-concurrent")
        if outcome.get("interleaved"):
            sim.world.probe("c15.burst-interleaved")
        # every accepted use stores one Token row (type CSRF = 4) under the token text
        def plain(t: str) -> str:
            for _ in range(4):
                t2 = urllib.parse.unquote(t)
                if t2 == t:
                    break
                t = t2
            return t
        # the record of a used token is the token itself or the token without a middle part (its expiry stamp)
        pt = plain(tok)
        uses = sum(1 for j in map(plain, outcome["csrf_rows"])
                   if j == pt or (len(j) >= 16 and pt.startswith(j[:8]) and pt.endswith(j[8:])))
        ok_status = [r.status for r in outcome["results"]]
        if uses > 1:
            ops = "+".join(sorted(r["recipe"]["op"] for r in reqs))
            sim.violate("csrf-token-used-twice", f"{ops}/after=concurrent",
                        f"one {st.get('service')} token was accepted by {uses} of {len(reqs)} requests served "
                        f"concurrently (statuses {ok_status}): "
                        f"{[r['method'] + ' ' + urllib.parse.urlsplit(r['url']).path for r in reqs]}; schedule "
                        f"{[(t, l) for t, l in outcome['schedule']][:40]}")


    def on_replay(self, actor, st: dict, req: dict, resp, before: list[str], after: list[str]) -> None:
        sim = self.sim
        sim.check("c15-csrf-replay-after-burst")
        tok = self.last_token
        if tok is None:
            return
        pt = self.plain(tok)

        def uses(rows):
            return sum(1 for j in map(self.plain, rows)
                       if j == pt or (len(j) >= 16 and pt.startswith(j[:8]) and pt.endswith(j[8:])))
        if self.last_accepted and uses(after) > uses(before):
            sim.violate("csrf-token-used-twice", f"{req['recipe']['op']}/after=concurrent+replay",
                        f"the token of a burst (accepted there: statuses {self.last_statuses}) was accepted once more "
                        f"when {req['method']} {urllib.parse.urlsplit(req['url']).path} was sent again on its own "
                        f"(status {resp.status}); records of the token before {uses(before)}, after {uses(after)}")


class StateOracle:
    def __init__(self, sim: Sim) -> None:
        self.sim = sim
        self.world = sim.world
        self.before: dict | None = None
        self.token_effects: dict[str, dict] = {}
        self.user_pks = (discover_ids(self.world).get("users") or {})

    def before_delivery(self, msg: Message) -> None:
        self.before = self.world.state()

    def after_delivery(self, msg: Message, resp: Response) -> None:
        sim = self.sim
        after = self.world.state()
        diffs = diff_state(self.before, after) if self.before is not None else []
        self.before = None
        actor = msg.actor
        role = getattr(actor, "role", "anonymous")
        endpoint = _endpoint(self.world, msg)
        sim.check("c15-request")
        if diffs:
            sim.check("c15-state-change")
            bad = []
            for d in diffs:
                if not self.permitted(role, d):
                    bad.append(d)
            if bad:
                tables = sorted({b.split(":")[0] for b in bad})
                sim.violate("unauthorised-change", f"{endpoint}/{msg.method}/{role}",
                            f"{role} changed durable state via {msg.method} {msg.url}: " + "; ".join(bad)[:900]
                            + f" (tables {tables})")
            else:
                sim.world.probe(f"c15.permitted-change/{role}")
        # CSRF provenance
        info = getattr(actor, "last_request", None)
        if isinstance(actor, CsrfProbe) and info is not None and msg.method in ("POST", "PUT", "DELETE"):
            sim.check(f"c15-csrf-{info['mode']}")
            token = info["token"]
            if diffs:
                rec = self.token_effects.get(token)
                if info["mode"] in ("cross-service", "cross-cookie", "tamper-char", "tamper-trunc", "salt-swap"):
                    sim.violate("csrf-invalid-token-accepted", f"{info['mode']}/{info['target']}",
                                f"{info['mode']} token took effect via {msg.method} {msg.url}: {'; '.join(diffs)[:500]}")
                elif rec is not None:
                    tags = []
                    if msg.is_dup or rec.get("dup_pending"):
                        tags.append("dup")
                    if self.world.restarts > rec["restarts"]:
                        tags.append("restart")
                    if simclock.CLOCK.us - rec["t_us"] > 20 * 60 * 1_000_000:
                        tags.append("expired")
                    sim.violate("csrf-token-used-twice", f"{info['target']}/after={'+'.join(tags) or 'nothing'}",
                                f"token accepted twice (first at event {rec['event']}), second via {msg.method} {msg.url}"
                                f" fault={'dup' if msg.is_dup else 'none'}: {'; '.join(diffs)[:400]}")
                else:
                    self.token_effects[token] = {"event": self.world.seq, "restarts": self.world.restarts,
                                                 "t_us": simclock.CLOCK.us}
                    sim.world.probe("c15.csrf-effect")
            else:
                sim.world.probe(f"c15.csrf-refused/{info['mode']}")

    def permitted(self, role: str, diff: str) -> bool:
        if diff.startswith("blob "):
            return role in ("media", "admin")
        table = diff.split(":")[0].replace("table ", "")
        if table in MEDIA_TABLES:
            return role in ("media", "admin")
        if table == "User":
            if role == "admin":
                return True
            own = self.user_pks.get(role)
            if role in AUTHENTICATED and own is not None:
                row = diff.split(":", 1)[1].strip()
                return row.startswith(f"-({own},") or row.startswith(f"+({own},")
            return False
        return False


def _endpoint(world, msg: Message) -> str:
    import urllib.parse
    try:
        adapter = world.app.url_map.bind("sim.dashlive.test")
        ep, _ = adapter.match(urllib.parse.urlsplit(msg.url).path, method=msg.method)
        return ep
    except Exception:  # noqa: BLE001
        return "unrouted"


def execute(spec: dict) -> dict:
    template = small_world()
    simclock.CLOCK.us = spec["t0_us"]
    world, info = worlds.instantiate("run", template, secrets_seed=base.sub_seed(spec["seed"], "secrets"))
    try:
        simclock.CLOCK.us = spec["t0_us"]
        if spec.get("family") == "burst":
            world.stop()
            world.preemptive = True
            world.start()
        sim = Sim(world, spec["sched_seed"])
        oracle = StateOracle(sim)
        sim.before_delivery = oracle.before_delivery
        sim.after_delivery = oracle.after_delivery
        actors = []
        for a in spec["actors"]:
            if a["kind"] == "burster":
                from ..actors.burster import Burster
                b = Burster(sim, a)
                b.observers = [BurstOracle(sim)]
                actors.append(b)
                continue
            cls = CsrfProbe if a["kind"] == "csrfprobe" else Intruder
            actors.append(cls(sim, a))
        sim.run(actors)
        nontrivial = bool(sim.checks.get("c15-request", 0) > 5 or sim.checks.get("c15-csrf-concurrent"))
        return base.outcome(ID, spec, sim, world, nontrivial=nontrivial,
                            extra={"sim_seconds": (simclock.CLOCK.us - spec["t0_us"]) / 1e6,
                                   "counters": {f"family.{spec.get('family', 'atomic')}": 1}})
    finally:
        world.destroy()
