"""C01 — every segment a live manifest advertises is retrievable (frozen-clock players)."""
from __future__ import annotations

from . import media_common as mc

ID = "C01"
LEVEL = "exploration"


def budget(tier: str) -> dict:
    return {"runs": 280, "wall_s": 75} if tier == "quick" else {"runs": 9000, "wall_s": 840}


def generate(seed: int, tier: str, index: int) -> dict:
    return mc.generate_live(ID, seed, tier, index, richness=0.5, seg_cap=70)


def execute(spec: dict) -> dict:
    return mc.execute_live(ID, spec, {"C01"}, ("advertised-time", "advertised-number"))
