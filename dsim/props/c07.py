"""C07 — options given to a manifest reach its media requests with the same meaning.

For every manifest response of the simulated players the harness captures the OptionsContainer the manifest
request resolved (ManifestContext.__init__ is wrapped from outside, no repo change) and feeds the query
string of every AdaptationSet's initialization / media URL - taken from the XML text exactly as a client
would see it - to the server's own option parser under the same stream defaults.  Every option whose usage
includes that media type must compare equal; options whose usage excludes it must be absent from the URL.
Interleaved clients with other option vectors and restarts exercise the process-global option defaults.
"""
from __future__ import annotations

import urllib.parse
from fractions import Fraction

from .. import clock as simclock
from .. import optgen, worlds
from ..actors.player import Player
from ..sim import Message, Sim
from ..world import Response
from . import base
from . import c06
from . import media_common as mc

ID = "C07"
LEVEL = "exploration"
_CAPTURED: list = []
_WRAPPED = {"done": False}
SKIP_COMPARE = {"videoErrors", "audioErrors", "textErrors", "videoCorruption"}   # rewritten to segment numbers


def budget(tier: str) -> dict:
    return {"runs": 1200, "wall_s": 70} if tier == "quick" else {"runs": 25000, "wall_s": 840}


def install_capture() -> None:
    if _WRAPPED["done"]:
        return
    from dashlive.server.requesthandler import manifest_context as mcx
    orig = mcx.ManifestContext.__init__

    def wrapped(self, options, manifest, stream, multi_period):
        orig(self, options, manifest, stream, multi_period)
        _CAPTURED.append((options, stream, multi_period))
    mcx.ManifestContext.__init__ = wrapped
    _WRAPPED["done"] = True


RESERVED_URLS = ["https://lic.test/a?b=1&c=2", "https://lic.test/p%20q/r+s?x=%26&y=a%2Bb", "ms3://h/p#frag",
                 "https://lic.test/{cfgs}/path?kid={kid}", "https://lic.test/ü/☃?q=1;2", "http://x.test/?a=b&amp;c=d"]


def generate(seed: int, tier: str, index: int) -> dict:
    rng = base.rng_for(seed, "gen")
    t0 = simclock.SimClock.parse(rng.choice(mc.T0_CHOICES)) + rng.randrange(0, 1_000_000)
    streams = [rng.choice(["bbb", "bbb", "tears", "fza"])]
    actors = []
    for i in range(rng.choice([1, 2, 3])):
        script = []
        for _ in range(rng.randrange(1, 5)):
            if rng.random() < 0.7:
                manifest = rng.choice(mc.LIVE_TEMPLATES)
                mode = "live"
                q = optgen.live_vector(rng, t0, manifest, richness=0.8, encrypted_ok=(streams[0] == "bbb"))
            else:
                manifest, mode = rng.choice(c06.VOD_TEMPLATES)
                q = c06.vod_vector(rng, manifest, mode, encrypted_ok=(streams[0] == "bbb"))
            if "drm" in q:
                for name in ("clearkey__la_url", "marlin__la_url", "playready__la_url"):
                    if rng.random() < 0.3:
                        q[name] = rng.choice(RESERVED_URLS)
            if mode == "live" and not script and rng.random() < 0.3:
                # an error addressed by time of day: it is translated into a segment number per media type as long
                # as the time lies inside the time-shift window (on the day of availabilityStartTime)
                tod = (t0 // 1_000_000 - rng.randrange(1, 25)) % 86400
                q[rng.choice(["verr", "aerr", "aerr"])] = \
                    f"{rng.choice([404, 410, 503])}={tod // 3600:02d}:{tod // 60 % 60:02d}:{tod % 60:02d}Z"
                q["start"] = rng.choice(["today", "today", "epoch", "month"])
            elif rng.random() < 0.25:
                q[rng.choice(["verr", "aerr", "terr"])] = rng.choice(["503=00:00:10Z", "404=5", "410=23:59:59Z,503=3"])
                if rng.random() < 0.5:
                    q["failures"] = str(rng.choice([0, 1, 3]))
            if rng.random() < 0.15:
                q["vcorrupt"] = rng.choice(["00:00:08Z", "3,4"])
                if rng.random() < 0.5:
                    q["frames"] = str(rng.choice([1, 4]))
            if rng.random() < 0.2:
                q["bugs"] = "saio"
            if rng.random() < 0.15:
                q["ping__value"] = rng.choice(["7", "a b", "x&y", "p=q", "%41"])
            script.append({"op": "manifest", "path": f"/dash/{mode}/{streams[0]}/{manifest}", "q": q})
            if rng.random() < 0.3:
                script.append({"op": "jump", "us": rng.choice([1, 4_000_000, 61_000_000])})
        actors.append({"id": f"obs{i + 1}", "kind": "player", "prng": rng.getrandbits(32),
                       "latency": {"min_us": 0, "jitter_us": rng.choice([0, 0, 100_000])}, "script": script})
    if rng.random() < 0.3:
        actors.append({"id": "chaos", "kind": "player", "prng": 0,
                       "script": [{"op": "sleep", "us": rng.randrange(0, 200_000)}, {"op": "restart"}]})
    return {"property": ID, "seed": seed, "index": index, "tier": tier, "hashseed": index % base.HASHSEEDS,
            "t0_us": t0, "sched_seed": rng.getrandbits(32), "world": {"streams": streams}, "actors": actors}


def opt_value(container, opt):
    try:
        if opt.prefix:
            return container[opt.prefix][opt.full_name]
        return container[opt.full_name]
    except (KeyError, AttributeError, TypeError):
        return None


def has_field(container, opt) -> bool:
    try:
        c = container[opt.prefix] if opt.prefix else container
        return opt.full_name in c._fields
    except (KeyError, AttributeError, TypeError):
        return False


def norm(val):
    if isinstance(val, (list, tuple)):
        return [norm(v) for v in val]
    if isinstance(val, (set, frozenset)):
        return sorted(norm(v) for v in val)
    if hasattr(val, "to_json"):
        return val.to_json()
    return val


class Oracle:
    def __init__(self, sim: Sim) -> None:
        self.sim = sim
        self.captured: dict[tuple, list] = {}

    def before_delivery(self, msg: Message) -> None:
        _CAPTURED.clear()

    def after_delivery(self, msg: Message, resp: Response) -> None:
        if _CAPTURED:
            self.captured[(msg.actor.id, msg.url)] = list(_CAPTURED)
        _CAPTURED.clear()

    def on_manifest(self, actor, doc, prev) -> None:
        sim = self.sim
        pending = self.captured.pop((actor.id, doc.url), None)
        if not actor.id.startswith("obs") or doc.mpd is None or not pending:
            return
        from dashlive.server.options.repository import OptionsRepository
        from dashlive.server.options.types import OptionUsage
        from dashlive.server.requesthandler.base import RequestHandlerBase
        from dashlive.server import models
        m_opts, stream, _ = pending[-1]
        sp = urllib.parse.urlsplit(doc.url)
        parts = sp.path.split("/")
        mode, sdir, tmpl = parts[2], parts[3], parts[4]
        world = sim.world
        handler = RequestHandlerBase()
        with world.app.app_context():
            st = models.Stream.get(directory=sdir)
            for period in doc.mpd.periods:
                for aset in period.asets:
                    ctype = aset.content_type or "video"
                    use = {"video": OptionUsage.VIDEO, "audio": OptionUsage.AUDIO, "text": OptionUsage.TEXT}.get(ctype)
                    if use is None or not aset.reps:
                        continue
                    rep = aset.reps[0]
                    urls = []
                    if rep.template is not None:
                        if rep.template.initialization:
                            urls.append(("init", rep.template.initialization))
                        if rep.template.media:
                            urls.append(("media", rep.template.media))
                    # on-demand BaseURLs carry no options: the on-demand endpoint serves stored bytes unchanged
                    for what, url in urls:
                        # '$$' is the escape for a literal '$' in a template
                        query = urllib.parse.urlsplit(url).query.replace("$$", "$")
                        args = dict(urllib.parse.parse_qsl(query, keep_blank_values=True))
                        sim.check("c07-url")
                        try:
                            media_opts = handler.calculate_options(mode, args, st)
                        except ValueError as err:
                            sim.violate("media-url-unparseable", f"{ctype}/{what}",
                                        f"the media endpoint rejects the query of {url[:200]!r}: {err}; manifest {doc.url[:200]}")
                            continue
                        if what == "media":
                            self.check_error_time(doc, ctype, rep, args, url)
                        if mode == "live" and doc.mpd.ast_us is not None:
                            # "the same meaning": the availability start the media endpoint resolves must be the
                            # instant the manifest announced, whatever the clock shows when the segment is asked for
                            sim.check("c07-start-pinned")
                            v = getattr(media_opts, "availabilityStartTime", None)
                            if isinstance(v, str) and v != "epoch":
                                sim.violate("start-depends-on-clock", f"{ctype}/{what}",
                                            f"the {ctype} {what} URL resolves start={v!r}, which changes with the clock; "
                                            f"the manifest announced {doc.mpd.attrib.get('availabilityStartTime')}; "
                                            f"{url[:160]!r}; manifest {doc.url[:200]}")
                            elif hasattr(v, "timestamp"):
                                from .. import clock as _c
                                got_us = _c.SimClock.parse(v.isoformat())
                                if got_us != doc.mpd.ast_us:
                                    sim.violate("start-differs-from-mpd", f"{ctype}/{what}",
                                                f"the {ctype} {what} URL resolves start={v.isoformat()}, the manifest "
                                                f"announced {doc.mpd.attrib.get('availabilityStartTime')}; {doc.url[:200]}")
                        for opt in OptionsRepository.get_dash_options():
                            if opt.full_name in ("mode",):
                                continue
                            applies = bool(opt.usage & use)
                            if not applies:
                                sim.check("c07-not-forwarded")
                                if opt.cgi_name in args:
                                    sim.violate("option-forwarded-to-wrong-type", f"{opt.cgi_name}/{ctype}",
                                                f"{opt.cgi_name}={args[opt.cgi_name]!r} in the {ctype} {what} URL "
                                                f"although its usage is {OptionUsage.to_string_set(opt.usage)}; {doc.url[:200]}")
                                continue
                            if opt.full_name in SKIP_COMPARE:
                                continue
                            if not has_field(m_opts, opt):
                                # removed by the manifest endpoint as unused in this mode (e.g. live-only
                                # options of a static manifest): nothing to forward
                                sim.world.probe("c07.unused-in-mode")
                                continue
                            a, b = norm(opt_value(m_opts, opt)), norm(opt_value(media_opts, opt))
                            sim.check("c07-option")
                            if a != b:
                                sim.violate("option-value-differs", f"{opt.cgi_name}/{ctype}",
                                            f"manifest request resolved {opt.cgi_name}={a!r}, the {ctype} {what} URL "
                                            f"{url[:160]!r} parses to {b!r}; manifest {doc.url[:200]}")
                            # round trip of the value that flows (not claimed beyond these values)
                            if a is not None and opt.cgi_name in args:
                                sim.check("c07-roundtrip")
                                try:
                                    txt = opt.to_string(opt_value(m_opts, opt))
                                    # "URL text": what the server parses is the query-decoded text
                                    back = opt.from_string(urllib.parse.unquote_plus(str(txt))) if txt is not None else None
                                    if norm(back) != a:
                                        sim.violate("roundtrip", opt.cgi_name,
                                                    f"{a!r} -> {txt!r} -> {norm(back)!r}; {doc.url[:200]}")
                                except Exception as err:  # noqa: BLE001
                                    sim.violate("roundtrip", opt.cgi_name, f"{type(err).__name__}: {err}; value {a!r}")


def _check_error_time(self, doc, ctype: str, rep, args: dict, url: str) -> None:
    """verr/aerr/terr=<code>=<HH:MM:SS>Z on a live manifest: the number written into that media type's URL must
    designate the segment of *that* Representation which contains the requested instant."""
    sim = self.sim
    name = {"video": "verr", "audio": "aerr", "text": "terr"}.get(ctype)
    mq = dict(urllib.parse.parse_qsl(urllib.parse.urlsplit(doc.url).query))
    m = doc.mpd
    tmpl = rep.template
    if name is None or name not in mq or m.ast_us is None or m.tsbd is None or tmpl is None or not tmpl.duration:
        return
    want = []
    for item in mq[name].split(","):
        code, _, pos = item.partition("=")
        if not pos.endswith("Z") or pos.count(":") != 2:
            return
        hh, mm, ss = (int(x) for x in pos[:-1].split(":"))
        day0 = m.ast_us - m.ast_us % 86_400_000_000
        tm = day0 + (hh * 3600 + mm * 60 + ss) * 1_000_000
        if not (doc.fetched_us - int(m.tsbd * 1_000_000) < tm <= doc.fetched_us) or tm < m.ast_us:
            return          # outside the window (or at its very edge): not translated
        exact = Fraction((tm - m.ast_us) * tmpl.timescale, tmpl.duration * 1_000_000)
        x = tmpl.start_number + int(exact)        # $Number$ n covers [(n - startNumber) d, (n - startNumber + 1) d)
        on_edge = exact.denominator == 1          # the instant is a segment boundary: either neighbour may be meant
        want.append((code, x, on_edge))
    got = args.get(name)
    sim.check("c07-error-time")
    pairs = []
    for item in (got or "").split(","):
        code, _, n = item.partition("=")
        pairs.append((code, int(n)) if n.isdigit() else (code, None))
    ok = len(pairs) == len(want) and all(c == wc and n is not None and (n == wx or (edge and n == wx - 1))
                                         for (c, n), (wc, wx, edge) in zip(pairs, want))
    if not ok:
        sim.violate("error-time-segment", f"{name}/{ctype}",
                    f"{name}={mq[name]} requested; the {ctype} media URL carries {name}={got!r}, the segment of this "
                    f"Representation that contains that time is {[w[1] for w in want]} with @duration={tmpl.duration}/"
                    f"{tmpl.timescale}; {doc.url[:200]}")


Oracle.check_error_time = _check_error_time


def execute(spec: dict) -> dict:
    install_capture()
    template, timing_refs = mc.world_template(spec["world"])
    simclock.CLOCK.us = spec["t0_us"]
    world, info = worlds.instantiate("run", template, secrets_seed=base.sub_seed(spec["seed"], "secrets"),
                                     share_blobs=True)
    try:
        simclock.CLOCK.us = spec["t0_us"]
        sim = Sim(world, spec["sched_seed"])
        oracle = Oracle(sim)
        sim.before_delivery = oracle.before_delivery
        sim.after_delivery = oracle.after_delivery
        actors = []
        for a in spec["actors"]:
            p = Player(sim, a)
            p.observers = [oracle]
            actors.append(p)
        sim.run(actors)
        return base.outcome(ID, spec, sim, world, nontrivial=bool(sim.checks.get("c07-option")),
                            extra={"sim_seconds": (simclock.CLOCK.us - spec["t0_us"]) / 1e6})
    finally:
        world.destroy()
