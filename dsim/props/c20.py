"""C20 — the windowed buffered reader behaves exactly like a slice of the file.

The class reads a clock (Buffer.timestamp = time.time(), eviction = oldest timestamp) and a file; both
seams belong to the simulator.  Seeded operation sequences are run against ``io.BytesIO`` over the same
window, with the SimClock in three modes - ticking, frozen (all timestamps tie) and stepping backwards
(the newest buffer looks oldest) - so the eviction order is chosen by the seed and must never change the
data returned.  Underlying reader: BytesIO or a real file on the simulated disk.
"""
from __future__ import annotations

import io
import random

from .. import clock as simclock
from ..world import SCRATCH_ROOT
from . import base

ID = "C20"
LEVEL = "exploration"
RULE = ("each evaluation is one seeded (file, window, buffer size, cache limit, clock mode, operation sequence) case "
        "run against io.BytesIO; non-trivial = at least one buffer eviction happened and at least 5 operations "
        "returned data; distinct = distinct (clock mode, eviction-order hash, op-kind sequence) triples")


def budget(tier: str) -> dict:
    return {"runs": 20000, "wall_s": 45} if tier == "quick" else {"runs": 600000, "wall_s": 600}


def generate(seed: int, tier: str, index: int) -> dict:
    rng = base.rng_for(seed, "gen")
    flen = rng.choice([0, 1, 7, 64, 100, 257, 1000, 4096, 5000])
    offset = rng.choice([0, 0, 1, 3, flen // 2, max(0, flen - 1), flen])
    offset = min(offset, flen)
    remaining = flen - offset
    # the statement quantifies over explicit window sizes
    size = min(remaining, rng.choice([remaining, remaining, max(0, remaining - 1), remaining // 2, 1, 0]))
    bufsize = rng.choice([1, 2, 3, 5, 7, 16, 64, 100, 1024, 16384])
    ops = []
    for _ in range(rng.randrange(3, 40)):
        r = rng.random()
        if r < 0.4:
            ops.append(["read", rng.choice([0, 1, 2, 3, 5, 8, 13, bufsize, bufsize + 1, 2 * bufsize, 100, 10 ** 6])])
        elif r < 0.47:
            ops.append(["read", -1])
        elif r < 0.72:
            ops.append(["seek", rng.choice([0, 1, -1, 5, -5, bufsize, -bufsize, 3 * bufsize, flen, flen + 5, -flen - 5,
                                            rng.randrange(-10, flen + 10)]), rng.choice([0, 0, 1, 1, 2])])
        elif r < 0.8:
            ops.append(["tell"])
        elif r < 0.86:
            # another user of the same file handle (the server opens one handle per file and one windowed reader
            # per fragment) moves the underlying position between two operations of this reader
            ops.append(["disturb", rng.choice([0, 1, flen // 3, flen // 2, max(0, flen - 1), flen]), rng.choice([0, 1, 7])])
        else:
            ops.append(["peek", rng.choice([1, 2, 3, 8, bufsize, bufsize + 1, 3 * bufsize + 1, 10 ** 5])])
    return {"property": ID, "seed": seed, "index": index, "tier": tier, "hashseed": index % base.HASHSEEDS,
            "file_len": flen, "file_seed": rng.getrandbits(32), "offset": offset, "size": size,
            "buffersize": bufsize, "max_buffers": rng.choice([2, 2, 3, 4, 30]),
            "reader": rng.choice(["bytesio", "bytesio", "file"]),
            "clock": rng.choice(["ticking", "frozen", "backwards"]), "ops": ops,
            "actors": [{"id": "ops", "script": [{"op": o[0], "args": o[1:]} for o in ops]}]}


def execute(spec: dict) -> dict:
    from dashlive.utils.buffered_reader import BufferedReader
    ops = [[st["op"]] + list(st.get("args", [])) for st in spec["actors"][0]["script"]] if spec.get("actors") else spec["ops"]
    data = random.Random(spec["file_seed"]).randbytes(spec["file_len"])
    offset, size = spec["offset"], spec["size"]
    window = data[offset:] if size is None else data[offset:offset + size]
    model = io.BytesIO(window)
    clock = simclock.SimClock(simclock.SimClock.parse("2024-05-05T05:05:05Z"))
    simclock.set_clock(clock)
    mode = spec["clock"]
    path = None
    if spec["reader"] == "file":
        SCRATCH_ROOT.mkdir(parents=True, exist_ok=True)
        path = SCRATCH_ROOT / "c20.bin"
        path.write_bytes(data)
        under = open(path, "rb", buffering=0)
    else:
        under = io.BytesIO(data)
    violations: list[dict] = []
    checks: dict[str, int] = {}
    evictions = 0
    evict_order: list[int] = []
    returned = 0

    def violate(rule: str, subject: str, detail: str) -> None:
        violations.append({"rule": rule, "subject": subject, "detail": detail[:800], "event": len(violations),
                           "t": clock.iso()})

    def chk(name: str) -> None:
        checks[name] = checks.get(name, 0) + 1

    try:
        under.seek(offset)
        br = BufferedReader(under, buffersize=spec["buffersize"], offset=offset, size=size,
                            max_buffers=spec["max_buffers"])
        for i, op in enumerate(ops):
            if mode == "ticking":
                clock.advance_us(1000)
            elif mode == "backwards":
                clock.advance_us(-1000)
            before = set(br.buffers.keys())
            kind = op[0]
            where = f"op #{i} {op} (file {spec['file_len']} bytes, offset {offset}, size {size}, " \
                    f"buffersize {spec['buffersize']}, max_buffers {spec['max_buffers']}, clock {mode}, pos {model.tell()})"
            if kind == "read":
                n = op[1]
                want = model.read(n)
                got = br.read(n)
                chk("read")
                if not isinstance(got, (bytes, bytearray)):
                    violate("read-not-bytes", "eof" if len(want) == 0 else "data",
                            f"read({n}) returned {type(got).__name__} {got!r:.40}; model {want!r:.40}; {where}")
                elif bytes(got) != want:
                    violate("read-mismatch", "read(-1)" if n == -1 else "read(n)",
                            f"read({n}) returned {len(got)} bytes {bytes(got)[:24]!r}, model {len(want)} bytes "
                            f"{want[:24]!r}; {where}")
                    model.seek(br.tell() if isinstance(br.tell(), int) else model.tell())
                returned += 1 if want else 0
            elif kind == "seek":
                # the statement: positions clamp to [0, size]
                target = {0: op[1], 1: model.tell() + op[1], 2: len(window) + op[1]}[op[2]]
                want = model.seek(max(0, min(len(window), target)))
                got = br.seek(op[1], op[2])
                chk("seek")
                if got != want or br.tell() != want:
                    violate("seek-position", f"whence={op[2]}", f"seek returned {got}, tell {br.tell()}, model {want}; {where}")
                    br.seek(want)
            elif kind == "disturb":
                chk("disturb")
                under.seek(min(int(op[1]), spec["file_len"]))
                under.read(int(op[2]))
            elif kind == "tell":
                chk("tell")
                if br.tell() != model.tell():
                    violate("tell-mismatch", "tell", f"{br.tell()} vs {model.tell()}; {where}")
            elif kind == "peek":
                n = op[1]
                pos = model.tell()
                want = window[pos:pos + n]
                got = br.peek(n)
                chk("peek")
                if not isinstance(got, (bytes, bytearray)):
                    if len(want) or got != "":
                        violate("peek-not-bytes", "data", f"peek({n}) returned {type(got).__name__}; {where}")
                    else:
                        violate("peek-not-bytes", "eof", f"peek({n}) returned {type(got).__name__} {got!r}; {where}")
                elif bytes(got)[:len(want)] != want:
                    violate("peek-mismatch", "peek", f"peek({n}) -> {bytes(got)[:24]!r} (len {len(got)}), model {want[:24]!r} "
                                                     f"(len {len(want)}); {where}")
                if br.tell() != pos:
                    violate("peek-moved-position", "peek", f"position {pos} -> {br.tell()}; {where}")
                    br.seek(pos)
                returned += 1 if want else 0
            gone = before - set(br.buffers.keys())
            if gone:
                evictions += len(gone)
                evict_order += sorted(gone)
    except Exception as err:  # noqa: BLE001
        import traceback
        violate("exception", type(err).__name__, f"{type(err).__name__}: {err}; "
                + traceback.format_exc().splitlines()[-3].strip())
    finally:
        under.close()
        if path is not None:
            path.unlink(missing_ok=True)
    import hashlib
    abstract = hashlib.sha1(f"{mode}|{evict_order}|{[o[0] for o in ops]}".encode()).hexdigest()[:16]
    for v in violations:
        v["signature"] = base.signature(ID, v)
    return {"property": ID, "seed": spec["seed"], "index": spec["index"], "violations": violations[:10],
            "harness_error": None, "nontrivial": evictions > 0 and returned >= 5, "checks": checks,
            "requests": 0, "events": len(ops), "digest": abstract, "abstract": abstract,
            "faults_fired": {f"clock.{mode}": 1}, "probes": {"c20.evictions": evictions},
            "sim_seconds": 0.0, "bigrams": []}


