"""C08 — live timing parameters are coherent for every clock and option.

History layer over HTTP: a player walks the simulated clock through calendar boundaries (first seconds of
days, months, years, leap days) and random steps, fetching live manifests for a fixed option vector; the
oracle reads only the manifest text and the simulated clock.  Direct layer: the same inequalities on
DashTiming objects built at many more clock phases (dense sweep), same oracle arithmetic.
"""
from __future__ import annotations

import urllib.parse
from fractions import Fraction

from .. import clock as simclock
from .. import optgen, worlds
from ..actors.player import Doc, Player
from ..oracles import mpd as mpdlib
from ..sim import Sim
from . import base
from . import media_common as mc

ID = "C08"
LEVEL = "exploration"
DAY = 86_400_000_000
SYMBOLIC = ["epoch", "today", "month", "year", "now"]


def budget(tier: str) -> dict:
    return {"runs": 600, "wall_s": 60} if tier == "quick" else {"runs": 20000, "wall_s": 800}


BOUNDARY_DAYS = [
    "2024-01-01", "2024-02-29", "2024-03-01", "2025-01-01", "2025-03-01", "2026-12-31", "2027-01-01",
    "2028-02-29", "2031-05-01", "2038-01-19", "2100-03-01", "2024-06-30", "2024-07-01",
]
OFFSETS_US = [0, 1, 999_999, 1_000_000, 59_999_999, 60_000_000, 60_000_001, 61_000_000, -1, -1_000_000,
              -59_000_000, 3_600_000_000, 86_399_999_999]


def generate(seed: int, tier: str, index: int) -> dict:
    rng = base.rng_for(seed, "gen")
    day0 = simclock.SimClock.parse(rng.choice(BOUNDARY_DAYS) + "T00:00:00Z")
    t0 = day0 + rng.choice([-3 * DAY // 2, -DAY // 2, -120_000_000, -1_000_000, 0, 30_000_000])
    stream = rng.choice(["bbb", "tears", "fza", "fzb", "fzc"])
    manifest = rng.choice(mc.LIVE_TEMPLATES)
    q: dict[str, str] = {}
    r = rng.random()
    if r < 0.7:
        q["start"] = rng.choice(SYMBOLIC)
    elif r < 0.9:
        q["start"] = optgen.gen_start(rng, t0, young_ok=True)
        if q["start"] in SYMBOLIC:
            pass
    if rng.random() < 0.6:
        q["depth"] = str(rng.choice([1, 5, 30, 59, 60, 61, 120, 1800, 86400, 100000]))
    from dashlive.server.manifests import manifest_map
    if "minimumUpdatePeriod" in manifest_map[manifest].features and rng.random() < 0.7:
        q["mup"] = str(rng.choice([-1, 0, 1, 2, 3, 7, 8, 30, 59, 60, 61, 3600]))
    if rng.random() < 0.15:
        q["drift"] = str(rng.choice([10, 1, 3]))
    if rng.random() < 0.2 and "segmentTimeline" in manifest_map[manifest].features:
        q["timeline"] = "1"
    script = []
    now = t0
    n = rng.randrange(4, 14)
    for k in range(n):
        kind = rng.random()
        if kind < 0.5:
            # next calendar boundary + offset
            nxt = ((now // DAY) + 1) * DAY + rng.choice(OFFSETS_US)
            if nxt <= now:
                nxt = now + rng.choice([1, 1_000_000])
            script.append({"op": "goto", "us": nxt})
            now = nxt
        elif kind < 0.8:
            step = rng.choice([1, 999, 1_000, 1_000_000, 2_000_000, 7_999_999, 8_000_000, 60_000_000,
                               rng.randrange(1, 10_000_000), rng.randrange(1, 4 * 3600_000_000)])
            script.append({"op": "jump", "us": step})
            now += step
        script.append({"op": "manifest", "path": f"/dash/live/{stream}/{manifest}", "q": q})
    actors = [{"id": "obs1", "kind": "player", "prng": rng.getrandbits(32),
               "latency": {"min_us": 0, "jitter_us": 0}, "script": script}]
    if rng.random() < 0.3:
        actors.append({"id": "chaos", "kind": "player", "prng": 0,
                       "script": [{"op": "sleep", "us": rng.randrange(1, 2 * DAY)}, {"op": "restart"}]})
    return {
        "property": ID, "seed": seed, "index": index, "tier": tier, "hashseed": index % base.HASHSEEDS,
        "t0_us": t0, "sched_seed": rng.getrandbits(32), "world": {"streams": [stream]}, "actors": actors,
        "direct": {"phases": rng.choice([0, 40, 120]), "prng": rng.getrandbits(32)},
    }


def judge(sim: Sim, subj: str, now_us: int, q: dict, ast_us: int | None, pub_us: int | None,
          tsbd: Fraction | None, mup: Fraction | None, where: str) -> None:
    """All single-instant inequalities of the statement, on exact integers/fractions."""
    try:
        drift = int(q.get("drift", "0") or 0)
    except ValueError:
        drift = 0
    now = now_us - drift * 1_000_000
    if ast_us is None or tsbd is None:
        sim.violate("attribute-missing", subj, f"AST={ast_us} publishTime={pub_us} TSBD={tsbd}; {where}")
        return
    if ast_us % 1_000_000:
        subj += "/fractional-ast"     # regime: explicit start with sub-second part
    sim.check("c08-instant")
    if ast_us > now:
        sim.violate("ast-after-now", subj, f"AST={ast_us} now={now}; {where}")
    elapsed = Fraction(now - ast_us, 1_000_000)
    if tsbd < 0 or tsbd > elapsed:
        sim.violate("tsbd-range", subj, f"TSBD={tsbd} now-AST={elapsed}; {where}")
    if pub_us is None:
        # publishTime is not emitted by every vendor template; its presence is C05's subject
        sim.world.probe("c08.no-publishTime")
    else:
        if not (ast_us <= pub_us <= now):
            sim.violate("publishTime-range", subj, f"AST={ast_us} publishTime={pub_us} now={now}; {where}")
        if pub_us % 1_000_000:
            sim.violate("publishTime-fraction", subj, f"publishTime={pub_us}; {where}")
    if pub_us is not None and mup is not None and mup > 0:
        sim.check("c08-mup")
        k = Fraction(pub_us - ast_us, 1_000_000) / mup
        if k.denominator != 1:
            sim.violate("publishTime-not-on-period", subj,
                        f"(publishTime-AST)/mup = {float(k):.6f} (mup={mup}); {where}")
        lag = Fraction(now - pub_us, 1_000_000)
        if lag >= mup + 1:
            sim.violate("publishTime-lag", subj, f"lag {float(lag):.6f}s >= mup+1 ({mup}); {where}")
    start = q.get("start", "year")
    if start in SYMBOLIC:
        sim.check("c08-symbolic-age")
        if now - ast_us < 60_000_000:
            sim.violate("symbolic-start-too-young", f"{subj}/{start}", f"now-AST={(now - ast_us) / 1e6}s; {where}")
        if start == "now":
            if ast_us != (now // 1_000_000) * 1_000_000 - 60_000_000 and (mup is None or mup <= 0):
                sim.violate("now-distance", subj, f"AST={ast_us} now={now}; {where}")


class Oracle:
    def __init__(self, sim: Sim) -> None:
        self.sim = sim
        self.last_pub: dict[str, tuple[int, int]] = {}
        self.day_ast: dict[tuple, int] = {}

    def on_manifest(self, actor: Player, doc: Doc, prev: Doc | None) -> None:
        sim = self.sim
        if not actor.id.startswith("obs"):
            return
        sp = urllib.parse.urlsplit(doc.url)
        q = dict(urllib.parse.parse_qsl(sp.query))
        subj = sp.path.split("/")[-1]
        start = q.get("start", "year")
        if start not in SYMBOLIC:
            # the statement quantifies over explicit instants <= now, and the server's now is the clock minus
            # `drift`: a start inside the last `drift` seconds is a start in the server's future - out of scope
            try:
                drift_us = int(q.get("drift", "0") or 0) * 1_000_000
                if simclock.SimClock.parse(start) > doc.fetched_us - drift_us:
                    sim.world.probe("c08.skip-start-after-drifted-now")
                    return
            except ValueError:
                pass
        if doc.resp.status != 200:
            if doc.resp.status >= 500:
                sim.violate("manifest-5xx", subj, f"{doc.resp.status} {doc.url} at {doc.fetched_us}")
            return
        if doc.mpd is None:
            sim.violate("manifest-unparseable", subj, f"{doc.error}; {doc.url}")
            return
        m = doc.mpd
        where = f"{doc.url} at {simclock.SimClock(doc.fetched_us).iso()}"
        judge(sim, subj, doc.fetched_us, q, m.ast_us, m.publish_us, m.tsbd, m.mup, where)
        if m.ast_us is None:
            return
        if m.publish_us is None:
            m.publish_us = None
        # history: publishTime never decreases as now advances
        lp = self.last_pub.get(doc.url)
        sim.check("c08-history")
        if m.publish_us is not None and lp is not None and doc.fetched_us >= lp[1] and m.publish_us < lp[0]:
            if prev is not None and prev.mpd is not None and prev.mpd.ast_us != m.ast_us:
                subj += "/ast-changed"
            sim.violate("publishTime-decreased", subj,
                        f"publishTime {lp[0]} (at {lp[1]}) -> {m.publish_us} (at {doc.fetched_us}); {doc.url}")
        if m.publish_us is not None:
            self.last_pub[doc.url] = (m.publish_us, doc.fetched_us)
        # symbolic start resolves to one instant for all requests of a UTC day after its first minute
        start = q.get("start", "year")
        if start in ("epoch", "today", "month", "year"):
            try:
                drift = int(q.get("drift", "0") or 0)
            except ValueError:
                drift = 0
            now = doc.fetched_us - drift * 1_000_000
            day = now // DAY
            if now - day * DAY >= 60_000_000:
                key = (doc.url, day)
                sim.check("c08-same-day-ast")
                if key in self.day_ast and self.day_ast[key] != m.ast_us:
                    sim.violate("symbolic-start-moved-within-day", f"{subj}/{start}",
                                f"AST {self.day_ast[key]} -> {m.ast_us} within UTC day {day}; {where}")
                self.day_ast.setdefault(key, m.ast_us)


def direct_layer(sim: Sim, spec: dict, stream: str) -> None:
    """Dense sweep of clock phases on DashTiming objects (real repo code, no HTTP)."""
    import datetime
    import random
    from dashlive.mpeg.dash.timing import DashTiming
    from dashlive.server import models
    from dashlive.server.options.repository import OptionsRepository
    from dashlive.utils.timezone import UTC
    d = spec.get("direct") or {}
    n = int(d.get("phases", 0))
    if not n:
        return
    rng = random.Random(d.get("prng", 0))
    world = sim.world
    with world.app.app_context():
        st = models.Stream.get(directory=stream)
        ref = st.timing_reference
        defaults = OptionsRepository.get_default_options()
        for _ in range(n):
            day0 = simclock.SimClock.parse(rng.choice(BOUNDARY_DAYS) + "T00:00:00Z")
            now_us = day0 + rng.choice(OFFSETS_US) + rng.choice([0, 0, rng.randrange(-DAY, DAY)])
            q = {"mode": "live"}
            q["start"] = rng.choice(SYMBOLIC + [optgen.gen_start(rng, now_us)])
            if rng.random() < 0.6:
                q["depth"] = str(rng.choice([1, 30, 60, 61, 1800, 100000]))
            if rng.random() < 0.7:
                q["mup"] = str(rng.choice([-1, 0, 1, 2, 7, 8, 30, 60, 61]))
            simclock.CLOCK.us = now_us
            try:
                opts = OptionsRepository.convert_cgi_options(q, defaults=defaults)
                opts.add_field("mode", "live")
            except ValueError:
                continue
            now = datetime.datetime.now(tz=UTC())
            t = DashTiming(now, ref, opts)

            def us(dt) -> int:
                delta = dt - simclock.EPOCH
                return (delta.days * 86400 + delta.seconds) * 1_000_000 + delta.microseconds
            mup = Fraction(t.minimumUpdatePeriod) if t.minimumUpdatePeriod else None
            judge(sim, "direct", now_us, q, us(t.availabilityStartTime), us(t.publishTime),
                  Fraction(t.timeShiftBufferDepth), mup, f"DashTiming q={q} now={simclock.SimClock(now_us).iso()}")
            sim.check("c08-direct")
            fa = t.firstAvailableTime
            expect = t.elapsedTime - datetime.timedelta(seconds=t.timeShiftBufferDepth)
            if fa != expect or fa < datetime.timedelta(0):
                sim.violate("first-available", "direct", f"firstAvailableTime={fa} expected {expect}; q={q}")


def execute(spec: dict) -> dict:
    template, _ = mc.world_template(spec["world"])
    simclock.CLOCK.us = spec["t0_us"]
    world, info = worlds.instantiate("run", template, secrets_seed=base.sub_seed(spec["seed"], "secrets"),
                                     share_blobs=True)
    try:
        simclock.CLOCK.us = spec["t0_us"]
        sim = Sim(world, spec["sched_seed"])
        oracle = Oracle(sim)
        actors = []
        for a in spec["actors"]:
            p = Player(sim, a)
            p.observers = [oracle]
            actors.append(p)
        sim.run(actors)
        end_us = simclock.CLOCK.us
        direct_layer(sim, spec, spec["world"]["streams"][0])
        return base.outcome(ID, spec, sim, world, nontrivial=bool(sim.checks.get("c08-instant")),
                            extra={"sim_seconds": (end_us - spec["t0_us"]) / 1e6})
    finally:
        world.destroy()
