"""C13 — byte-range requests return exactly the requested bytes.

Fault-driven part (simulation): transfers of media segments and on-demand files are cut by ``net.truncate``
at byte k and resumed with ``Range: bytes=k-`` at the same frozen clock; the reassembled body must equal the
unranged one.  Generated part (no simulation content, kept because the harness pairs ranged and unranged
GETs at one clock and interleaves other clients): Range strings around 0, len-1, len, len+1 and malformed
ones.
"""
from __future__ import annotations

import re

from ..sim import Sim
from . import base
from . import c06

ID = "C13"
LEVEL = "exploration"
SINGLE = re.compile(r"^bytes=(\d*)-(\d*)$")


def budget(tier: str) -> dict:
    return {"runs": 400, "wall_s": 60} if tier == "quick" else {"runs": 12000, "wall_s": 800}


def generate(seed: int, tier: str, index: int) -> dict:
    spec = c06.generate(seed, tier, index, prop=ID, range_steps=True)
    # fault plan: truncate one of the base transfers of each observer
    rng = base.rng_for(seed, "faults")
    for a in spec["actors"]:
        if a["id"].startswith("obs") and rng.random() < 0.6:
            a["faults"] = [{"msg": rng.randrange(2, 6), "kind": "net.truncate", "at": rng.randrange(0, 10 ** 6)}]
    return spec


def classify(hdr: str, length: int):
    """Independent reading of RFC 7233 for a single byte-range. Returns (kind, first, last)."""
    m = SINGLE.match(hdr)
    if not m or not hdr.isascii():
        return ("not-single", None, None)
    a, b = m.group(1), m.group(2)
    if a == "" and b == "":
        return ("not-single", None, None)
    if a == "":
        n = int(b)
        if n == 0 or length == 0:
            return ("unsatisfiable", None, None)
        return ("ok", max(0, length - n), length - 1)
    first = int(a)
    if b != "":
        last = int(b)
        if last < first:
            return ("not-single", None, None)     # invalid byte-range-spec
    else:
        last = length - 1
    if first >= length:
        return ("unsatisfiable", None, None)
    return ("ok", first, min(last, length - 1))


class Oracle:
    def __init__(self, sim: Sim) -> None:
        self.sim = sim

    def consistent(self, resp, full: bytes) -> str | None:
        """Body/Content-Range agreement for a response that was served."""
        length = len(full)
        if resp.status == 200:
            return None if resp.body == full else f"200 with {len(resp.body)} bytes, full body has {length}"
        if resp.status == 206:
            cr = resp.header("Content-Range") or ""
            m = re.match(r"^bytes (\d+)-(\d+)/(\d+)$", cr)
            if not m:
                return f"206 with Content-Range {cr!r}"
            a, b, total = int(m.group(1)), int(m.group(2)), int(m.group(3))
            if total != length:
                return f"Content-Range total {total}, full length {length}"
            if not (0 <= a <= b < length):
                return f"Content-Range {cr!r} outside 0..{length - 1}"
            if resp.body != full[a:b + 1]:
                return f"body ({len(resp.body)} bytes) is not the slice {a}-{b} named by Content-Range"
            return None
        return f"status {resp.status}"

    def on_range_base(self, actor, kind, url, full, plain) -> None:
        sim = self.sim
        sim.check("c13-absent-header")
        if kind == "ondemand":
            if plain.status != 400:
                sim.violate("absent-range-ondemand", kind, f"{plain.status} without Range (a range is mandatory); {url}")
            if full.status != 206:
                sim.violate("open-range-ondemand", kind, f"{full.status} for bytes=0-; {url}")
        else:
            if plain.status != 200 and plain.status != 404:
                sim.violate("absent-range", kind, f"{plain.status} without Range; {url}")

    def on_range(self, actor, kind, url, hdr, resp, full) -> None:
        sim = self.sim
        if resp.fault and resp.fault.startswith("net.truncate"):
            return        # this transfer itself was cut by the network
        if full.status not in (200, 206):
            return        # the resource does not exist: nothing range-related to judge
        body = full.body
        length = len(body)
        what, first, last = classify(hdr, length)
        sim.check(f"c13-{what}")
        shape = _shape(hdr, length)
        if resp.status >= 500:
            sim.violate("range-5xx", f"{kind}/{shape}", f"{resp.status} for Range: {hdr!r}; {url}")
            return
        if what == "ok":
            want = body[first:last + 1]
            cr = resp.header("Content-Range")
            if resp.status != 206 or resp.body != want or cr != f"bytes {first}-{last}/{length}":
                sim.violate("satisfiable-range", f"{kind}/{shape}",
                            f"Range: {hdr!r} on {length} bytes -> status {resp.status}, {len(resp.body)} bytes, "
                            f"Content-Range {cr!r}; expected 206, {len(want)} bytes, 'bytes {first}-{last}/{length}'; {url}")
        elif what == "unsatisfiable":
            cr = resp.header("Content-Range")
            if resp.status != 416 or cr != f"bytes */{length}":
                sim.violate("unsatisfiable-range", f"{kind}/{shape}",
                            f"Range: {hdr!r} on {length} bytes -> status {resp.status}, Content-Range {cr!r}; "
                            f"expected 416 'bytes */{length}'; {url}")
        else:
            if resp.status == 400:
                return
            err = self.consistent(resp, body)
            if err is not None:
                sim.violate("malformed-range", f"{kind}/{shape}", f"Range: {hdr!r} -> {err}; {url}")

    def on_truncated(self, actor, kind, url, cut, tail, ref) -> None:
        """A transfer was cut at byte k by the network and resumed with bytes=k-."""
        sim = self.sim
        sim.check("c13-resume-after-truncate")
        sim.world.probe("c13.resume-after-truncate")
        k = len(cut.body)
        if ref.status not in (200, 206):
            return
        body = ref.body
        if k < len(body):
            if tail.status != 206 or cut.body + tail.body != body:
                sim.violate("resume-mismatch", f"{kind}/after-truncate",
                            f"transfer cut at byte {k} of {len(body)}, resumed with bytes={k}- -> {tail.status}, "
                            f"{len(tail.body)} bytes; prefix + tail != full body; {url}")
        elif tail.status != 416:
            sim.violate("resume-beyond-end", f"{kind}/after-truncate", f"bytes={k}- on {len(body)} bytes -> {tail.status}; {url}")

    def on_resume(self, actor, kind, url, k, resp, full) -> None:
        sim = self.sim
        if (resp.fault and resp.fault.startswith("net.truncate")) or full.status not in (200, 206):
            return
        sim.check("c13-resume")
        body = full.body
        if k < len(body):
            if resp.status != 206 or body[:k] + resp.body != body:
                sim.violate("resume-mismatch", kind,
                            f"bytes={k}- on {len(body)} bytes -> {resp.status}, {len(resp.body)} bytes; prefix + tail != full; {url}")
        else:
            if resp.status != 416:
                sim.violate("resume-beyond-end", kind, f"bytes={k}- on {len(body)} bytes -> {resp.status}; {url}")


def _shape(hdr: str, length: int) -> str:
    """Abstract shape of a Range header: numbers replaced by their relation to the length."""
    def rel(m):
        v = int(m.group(0))
        if v == 0:
            return "0"
        if v == length - 1:
            return "L-1"
        if v == length:
            return "L"
        if v == length + 1:
            return "L+1"
        if v > length + 1:
            return ">L"
        return "n"
    if not hdr.isascii():
        return "non-ascii"
    return re.sub(r"\d+", rel, hdr)[:40]


def execute(spec: dict) -> dict:
    # a truncated base transfer must be followed by a resume at exactly the cut point
    for a in spec["actors"]:
        for st in a.get("script", []):
            if st.get("op") == "ranges":
                st.setdefault("resume_at", [])
    return c06.execute(spec, prop=ID, extra_observers=lambda sim, world: [Oracle(sim)],
                       nontrivial_keys=("c13-ok", "c13-resume"))
