"""C09 — successive manifests and MPD patches evolve consistently.

Workload: 1-2 observing players in frozen mode (zero latency: every request of a wake-up is delivered at
one clock value) fetch a live manifest at T1, then at T2 = T1 + delta the full manifest again and - when
patch=1 - the PatchLocation of the document they hold (patch-of-patched chains included).  Background
players with other option vectors and a chaos actor (restart, extra clock jumps) are interleaved by the
scheduler.
"""
from __future__ import annotations

import bisect

from fractions import Fraction

from lxml import etree

from .. import clock as simclock
from .. import optgen, worlds
from ..actors.player import Doc, Player
from ..oracles import mpd as mpdlib
from ..oracles import patch as patchlib
from ..sim import Sim
from . import base

ID = "C09"
LEVEL = "exploration"
TIMELINE_TEMPLATES = ["hand_made.mpd", "manifest_a.mpd", "manifest_n.mpd"]


def budget(tier: str) -> dict:
    return {"runs": 420, "wall_s": 55} if tier == "quick" else {"runs": 12000, "wall_s": 780}


T0_CHOICES = [
    "2024-01-01T00:00:00Z", "2024-02-28T23:59:30Z", "2024-02-29T23:59:58.999999Z", "2024-12-31T23:59:00Z",
    "2025-06-15T12:00:00Z", "2031-03-01T00:00:59.5Z", "2031-07-04T03:17:11.123456Z", "2038-01-19T03:14:00Z",
    "2024-03-31T00:01:00Z", "2027-11-30T23:58:57Z",
]


def gen_delta_us(rng, mup_hint: int) -> int:
    kind = rng.random()
    if kind < 0.12:
        return 0
    if kind < 0.3:
        return rng.choice([1, 999, 1000, 1_000_000 - 1, 1_000_000, 1_000_001])
    if kind < 0.6:
        return rng.randrange(1, 12_000_000)
    if kind < 0.8:
        return rng.randrange(1, 20) * mup_hint * 1_000_000 + rng.choice([-1, 0, 1, 500_000])
    if kind < 0.92:
        return rng.choice([40, 80, 400]) * 1_000_000 + rng.randrange(-2_000_000, 2_000_000)   # source loops
    return rng.choice([3600, 86400, 86400 * 31]) * 1_000_000 + rng.randrange(0, 5_000_000)


def generate(seed: int, tier: str, index: int) -> dict:
    rng = base.rng_for(seed, "gen")
    t0 = simclock.SimClock.parse(rng.choice(T0_CHOICES)) + rng.choice([0, 0, 1, 500_000, 999_999]) \
        + rng.randrange(0, 3) * rng.randrange(0, 86_400_000_000)
    actors = []
    n_obs = rng.choice([1, 1, 2])
    for i in range(n_obs):
        stream = rng.choice(["bbb", "bbb", "tears"])
        manifest = rng.choice(["hand_made.mpd"] * 3 + TIMELINE_TEMPLATES)
        force = {"timeline": "1"} if manifest == "hand_made.mpd" else {}
        if manifest == "hand_made.mpd" and rng.random() < 0.7:
            force["patch"] = "1"
        q = optgen.live_vector(rng, t0, manifest, richness=0.45, encrypted_ok=(stream == "bbb"),
                               young_ok=True, force=force)
        if manifest != "hand_made.mpd":
            q.pop("patch", None)
        mup = int(q.get("mup", "8")) if q.get("mup", "8").lstrip("-").isdigit() else 8
        script = [{"op": "manifest", "path": f"/dash/live/{stream}/{manifest}", "q": q, "tag": "T1"}]
        if q.get("patch") == "1":
            script.append({"op": "patch"})
        for k in range(rng.choice([1, 1, 2, 3, 4])):
            script.append({"op": "sleep", "us": gen_delta_us(rng, max(mup, 1))})
            script.append({"op": "refresh", "tag": f"T{k + 2}"})
            if q.get("patch") == "1":
                script.append({"op": "patch"})
        actors.append({"id": f"obs{i + 1}", "kind": "player", "prng": rng.getrandbits(32),
                       "latency": {"min_us": 0, "jitter_us": 0}, "script": script})
    for i in range(rng.choice([0, 1, 1, 2])):
        stream = rng.choice(["bbb", "tears"])
        manifest = rng.choice(["hand_made.mpd", "manifest_e.mpd", "manifest_n.mpd", "manifest_a.mpd"])
        script = []
        for _ in range(rng.randrange(1, 5)):
            q = optgen.live_vector(rng, t0, manifest, richness=0.6, encrypted_ok=(stream == "bbb"))
            script.append({"op": "manifest", "path": f"/dash/live/{stream}/{manifest}", "q": q})
            script.append({"op": "segments", "select": "edges", "max": 6})
            script.append({"op": "sleep", "us": rng.randrange(0, 6_000_000)})
        actors.append({"id": f"bg{i + 1}", "kind": "player", "prng": rng.getrandbits(32),
                       "latency": {"min_us": rng.choice([0, 1000]), "jitter_us": rng.choice([0, 50_000, 1_000_000])},
                       "script": script})
    if rng.random() < 0.5:
        script = []
        for _ in range(rng.randrange(1, 3)):
            script.append({"op": "sleep", "us": rng.randrange(0, 15_000_000)})
            script.append({"op": "restart"})
        actors.append({"id": "chaos", "kind": "player", "prng": 0, "script": script})
    world = {"streams": ["bbb", "tears"]}
    if rng.random() < 0.3:
        # the stream carries stored option defaults: URLs omit values equal to them, every endpoint must apply them
        world["defaults"] = {"bbb": rng.choice([{"depth": "40", "mup": "4"}, {"depth": "24"}])}
    return {
        "property": ID, "seed": seed, "index": index, "tier": tier, "hashseed": index % base.HASHSEEDS,
        "t0_us": t0, "sched_seed": rng.getrandbits(32),
        "world": world,
        "actors": actors,
    }


class Oracle:
    """History oracle over the documents of one observing player."""

    def __init__(self, sim: Sim) -> None:
        self.sim = sim
        self.model: dict[str, object] = {}     # actor id -> patched document tree (lxml root)
        self.model_pub: dict[str, int] = {}

    # -- helpers
    @staticmethod
    def timelines(m: mpdlib.Mpd) -> dict[tuple, list[tuple[int, int]]]:
        out = {}
        for p in m.periods:
            for a in p.asets:
                for r in a.reps:
                    if r.template is not None and r.template.timeline is not None:
                        key = (p.id, a.id if a.id is not None else a.content_type, r.id)
                        out[key] = (r.template.timescale, [(e.t, e.d) for e in r.template.timeline])
        return out

    def on_manifest(self, actor: Player, doc: Doc, prev: Doc | None) -> None:
        sim = self.sim
        if not actor.id.startswith("obs"):
            return
        if doc.resp.status != 200:
            if doc.resp.status >= 500:
                sim.violate("manifest-5xx", _subject(doc.url), f"status {doc.resp.status} for {doc.url}")
            return
        if doc.mpd is None:
            sim.violate("manifest-unparseable", _subject(doc.url), f"{doc.error}")
            return
        m = doc.mpd
        if actor.id not in self.model:
            self.model[actor.id] = m.root
        if prev is None or prev.mpd is None or prev.url != doc.url:
            return
        p = prev.mpd
        subj = _subject(doc.url, prev)
        sim.check("publishTime-monotone")
        if m.publish_us is not None and p.publish_us is not None and m.publish_us < p.publish_us:
            # regime: a symbolic start resolved to a later instant between the two manifests (the publishTime grid
            # AST + k * minimumUpdatePeriod is re-anchored) - C08's open finding "ast-changed", seen from here
            regime = "/ast-changed" if (m.ast_us is not None and p.ast_us is not None and m.ast_us > p.ast_us) else ""
            sim.violate("publishTime-backward", subj + regime,
                        f"publishTime {p.attrib.get('publishTime')} -> {m.attrib.get('publishTime')} "
                        f"(fetched {prev.fetched_us} -> {doc.fetched_us}) {doc.url}")
        sim.check("ast-monotone")
        if m.ast_us is not None and p.ast_us is not None and m.ast_us < p.ast_us:
            sim.violate("ast-backward", subj,
                        f"availabilityStartTime {p.attrib.get('availabilityStartTime')} -> "
                        f"{m.attrib.get('availabilityStartTime')} {doc.url}")
        if m.ast_us != p.ast_us:
            sim.world.probe("c09.ast-changed")
            return
        tl1, tl2 = self.timelines(p), self.timelines(m)
        for key in sorted(set(tl1) & set(tl2), key=repr):
            ts1, e1 = tl1[key]
            ts2, e2 = tl2[key]
            if ts1 != ts2 or not e1 or not e2:
                continue
            d1 = dict(e1)
            common = 0
            for t, d in e2:
                if t in d1:
                    common += 1
                    if d1[t] != d:
                        sim.violate("common-segment-duration", subj,
                                    f"{key}: t={t} d={d1[t]} at T1 but d={d} at T2; {doc.url}")
                        break
            # both lists lie on one grid: an entry of T2 that overlaps an entry of T1 is that very entry
            starts1 = [t for t, _ in e1]
            for t, d in e2:
                k = bisect.bisect_right(starts1, t) - 1
                for j in (k, k + 1):
                    if 0 <= j < len(e1):
                        t1, dd1 = e1[j]
                        if t1 < t + d and t < t1 + dd1 and (t1, dd1) != (t, d) and t not in d1:
                            sim.violate("segment-grid-shift", subj,
                                        f"{key}: <S t={t} d={d}> at T2 overlaps <S t={t1} d={dd1}> of T1 without "
                                        f"being the same segment; {doc.url}")
                            break
                else:
                    continue
                break
            sim.check("common-segments", common)
            if common:
                sim.world.probe("c09.overlap")
            else:
                sim.world.probe("c09.disjoint")
            sim.check("window-forward")
            if e2[0][0] < e1[0][0]:
                sim.violate("window-start-backward", subj,
                            f"{key}: first t {e1[0][0]} -> {e2[0][0]} "
                            f"(fetched {prev.fetched_us} -> {doc.fetched_us}); {doc.url}")
            if e2[-1][0] + e2[-1][1] < e1[-1][0] + e1[-1][1]:
                sim.violate("window-end-backward", subj,
                            f"{key}: last end {e1[-1][0] + e1[-1][1]} -> {e2[-1][0] + e2[-1][1]}; {doc.url}")

    def on_patch(self, actor: Player, cur: Doc, url: str, resp) -> None:
        sim = self.sim
        if not actor.id.startswith("obs"):
            return
        first = next((d for d in actor.docs if d.mpd is not None), None)
        subj = _subject(cur.url, first)
        if resp.status != 200:
            sim.violate("patch-status", subj, f"patch {url} -> {resp.status}")
            return
        base_root = self.model.get(actor.id)
        if base_root is None:
            return
        base_pub = base_root.attrib.get("publishTime")
        sim.check("patch-applies")
        try:
            new_root, pattr, nops = patchlib.apply(base_root, resp.body)
        except (patchlib.PatchError, etree.XMLSyntaxError) as err:
            sim.violate("patch-does-not-apply", subj, f"{type(err).__name__}: {err}; patch={url}")
            return
        sim.world.probe("c09.patch-applied")
        if actor.id in self.model_pub:
            sim.world.probe("c09.patch-chain")
        self.model_pub[actor.id] = 1
        # header attributes
        sim.check("patch-originalPublishTime")
        try:
            opt_us = mpdlib.parse_datetime_us(pattr.get("originalPublishTime"))
            base_us = mpdlib.parse_datetime_us(base_pub)
        except mpdlib.LexicalError as err:
            sim.violate("patch-header-lexical", subj, str(err))
            return
        if opt_us != base_us:
            sim.violate("patch-originalPublishTime", subj,
                        f"originalPublishTime={pattr.get('originalPublishTime')} but document publishTime={base_pub}")
        sim.check("patch-mpdId")
        if pattr.get("mpdId") != base_root.attrib.get("id"):
            sim.violate("patch-mpdId", subj, f"mpdId={pattr.get('mpdId')!r} MPD@id={base_root.attrib.get('id')!r}")
        self.model[actor.id] = new_root
        locs = [e for e in new_root if isinstance(e.tag, str) and e.tag.endswith("}PatchLocation")]
        if locs and (locs[0].text or "").strip():
            import urllib.parse
            actor.patch_url = urllib.parse.urljoin(cur.url, (locs[0].text or "").strip())
        # compare with the full manifest fetched at the same instant
        full = actor.current
        if full is None or full.mpd is None or full.fetched_us != simclock.CLOCK.us or full.url != cur.url:
            return
        try:
            patched = mpdlib.parse(etree.tostring(new_root), cur.url)
        except Exception as err:  # noqa: BLE001
            sim.violate("patched-doc-unparseable", subj, f"{type(err).__name__}: {err}")
            return
        fm = full.mpd
        if patched.ast_us != fm.ast_us:
            # symbolic start values resolved to another instant: the patched document and the full
            # manifest describe different presentations (a patch cannot change availabilityStartTime)
            sim.world.probe("c09.patch-ast-differs")
            return
        sim.check("patch-vs-full")
        if patched.publish_us != fm.publish_us:
            sim.violate("patch-publishTime-mismatch", subj,
                        f"patched {patched.attrib.get('publishTime')} full {fm.attrib.get('publishTime')}")
        if patched.patch_locations != fm.patch_locations:
            sim.violate("patch-PatchLocation-mismatch", subj,
                        f"patched {patched.patch_locations} full {fm.patch_locations}")
        t1, t2 = self.timelines(patched), self.timelines(fm)
        if t1 != t2:
            keys = [k for k in sorted(set(t1) | set(t2), key=repr) if t1.get(k) != t2.get(k)]
            k = keys[0]
            sim.violate("patch-timeline-mismatch", subj,
                        f"{k}: patched {str(t1.get(k))[:200]} full {str(t2.get(k))[:200]}")


def _subject(url: str, doc: Doc | None = None) -> str:
    """template name plus regime tags computed from manifest-visible quantities / the request URL."""
    import urllib.parse
    parts = urllib.parse.urlsplit(url)
    segs = parts.path.split("/")
    q = dict(urllib.parse.parse_qsl(parts.query, keep_blank_values=True))
    tags = []
    if doc is not None and doc.mpd is not None and doc.mpd.ast_us is not None:
        try:
            depth = int(q.get("depth", "1800"))
        except ValueError:
            depth = 1800
        if doc.fetched_us - doc.mpd.ast_us < depth * 1_000_000:
            tags.append("young-stream")
    return segs[-1] + ("/" + "+".join(tags) if tags else "")


def execute(spec: dict) -> dict:
    from . import media_common as mc
    template, _ = mc.world_template(spec["world"])
    simclock.CLOCK.us = spec["t0_us"]
    world, info = worlds.instantiate("run", template, secrets_seed=base.sub_seed(spec["seed"], "secrets"),
                                      share_blobs=True)
    try:
        simclock.CLOCK.us = spec["t0_us"]
        sim = Sim(world, spec["sched_seed"])
        oracle = Oracle(sim)
        actors = []
        for a in spec["actors"]:
            p = Player(sim, a)
            p.observers = [oracle]
            actors.append(p)
        sim.run(actors)
        nontrivial = bool(sim.checks.get("common-segments") or sim.checks.get("patch-vs-full"))
        return base.outcome(ID, spec, sim, world, nontrivial=nontrivial,
                            extra={"sim_seconds": (simclock.CLOCK.us - spec["t0_us"]) / 1e6})
    finally:
        world.destroy()
