"""C03 — rewritten media segments keep their payload and point at it correctly."""
from __future__ import annotations

from . import media_common as mc

ID = "C03"
LEVEL = "exploration"


def budget(tier: str) -> dict:
    return {"runs": 500, "wall_s": 70} if tier == "quick" else {"runs": 15000, "wall_s": 840}


def generate(seed: int, tier: str, index: int) -> dict:
    spec = mc.generate_live(ID, seed, tier, index, richness=0.8, seg_cap=50, wakeups=(1, 3), forge_p=0.4)
    mc.add_static_sessions(spec, seed, media=True)      # the same rewriting code serves static presentations
    return spec


def execute(spec: dict) -> dict:
    return mc.execute_live(ID, spec, {"C03"}, ("c03-segment",))
