"""C16 — no request causes an uncontrolled failure; injected errors fire exactly as asked.

Three fault families (labelled separately in the evidence):
  hostile   finite catalogue: every routing rule (discovered at run time, path variables filled from existing
            and non-existing objects) x every registered option name x a list of type-confused / boundary /
            hostile values, plus hostile JSON/form bodies on the management API as an authorised user, against
            worlds with missing pieces.  The catalogue is swept round-robin: run i executes slice i mod N.
  storage   stored MP4 files damaged between requests (truncate at every box boundary +-1, bit flips in
            headers, size-field edits) then index / inspect / list-segments / serve.
  inject    the error-injection protocol (verr/aerr/terr/merr, failures=K, update=N) against a reference
            model of the documented semantics, with duplicated requests, lost responses and cookie loss.
Every server call runs under a deterministic step budget (sys.monitoring backward-jump counter).
"""
from __future__ import annotations

import json
import os
import re
import urllib.parse

from .. import clock as simclock
from .. import worlds
from ..actors.intruder import RoleClient, discover_ids
from ..api import BASE, form, multipart
from ..sim import Actor, Message, NetTimeout, Sim
from ..world import Response, SimHang, exc_site
from . import base
from . import media_common as mc

ID = "C16"
LEVEL = "fault_enumeration"
RULE = ("hostile: finite catalogue (routing rules x option names x hostile values x world variants) swept "
        "round-robin, run i takes the items with number = i mod N; storage: damage catalogue (box boundary "
        "truncations, header bit flips, size-field edits) x endpoints; inject: seeded error-injection sessions; "
        "non-trivial = the run delivered at least 20 judged requests; distinct = distinct abstract traces")
N_SLICES = 48
STEP_BUDGET = 6_000_000

HOSTILE_VALUES = [
    "", "none", "0", "-1", "1", "999999999999999999999", "abc", "1e9", "true", ",", ",,", "=", "503=", "=5",
    "503=abc", "404=1,503", "a=b=c", "%00", "☃", "x" * 300, "<script>alert(1)</script>", "' OR 1=1 --",
    "2024-13-45T99:99:99Z", "0000-00-00T00:00:00Z", "2024-01-01T00:00:00", "9999-12-31T23:59:59Z", "1.5", "-0",
    "nan", "inf", "all-bogus", "bogus", "playready-bogus", "marlin,unknown", "clearkey--", "1,2,3", "00:00:00Z",
    "25:61:61Z", "ping,bogus", "../../etc/passwd",
]


def budget(tier: str) -> dict:
    return {"runs": 288, "wall_s": 90} if tier == "quick" else {"runs": 2880, "wall_s": 840}


def generate(seed: int, tier: str, index: int) -> dict:
    rng = base.rng_for(seed, "gen")
    # eight slots: four hostile cells, one storage run and three light runs (inject, manage or race, inject) - the
    # hostile cells cost seconds each, the light families fractions of a second
    slot = index % 8
    family = ["hostile", "hostile", "hostile", "hostile", "storage", "inject", "light", "light2"][slot]
    if family == "light2":
        family = "inject" if (index // 8) % 2 else "light"
    spec = {"property": ID, "seed": seed, "index": index, "tier": tier, "hashseed": index % base.HASHSEEDS,
            "t0_us": simclock.SimClock.parse(rng.choice(mc.T0_CHOICES)), "sched_seed": rng.getrandbits(32),
            "family": family, "actors": []}
    if family == "hostile":
        # the hostile catalogue is a finite enumeration of (slice, world variant, role) = 48 x 5 x 2 cells; nothing
        # in these runs depends on the per-run seed.  Cell c of the sweep is visited in a fixed scattered order
        # (stride 77 is coprime with 480) and VERIF_SEED only rotates where a bounded sweep starts.
        c = (index // 8) * 4 + slot + 144 * int(os.environ.get("VERIF_SEED", "0") or 0)
        cell = (c * 77) % (N_SLICES * 10)
        spec["slice"] = cell % N_SLICES
        spec["world"] = {"variant": ["full", "noenc", "noaudio", "notiming", "unindexed"][(cell // N_SLICES) % 5]}
        # today, just after the NTP era rolls over (2036) and just after 2^31 seconds since 1970
        spec["t0_us"] = simclock.SimClock.parse(["2026-09-26T10:00:00Z", "2036-02-07T06:28:20Z",
                                                 "2038-01-19T03:14:09Z"][(c // (N_SLICES * 10)) % 3 if c >= N_SLICES * 10
                                                                         else cell % 3])
        spec["sched_seed"] = 0
        spec["actors"] = [{"id": "hostile", "kind": "hostile", "role": ["anonymous", "media"][cell // (N_SLICES * 5)],
                           "prng": 0, "script": [{"op": "slice", "n": spec["slice"]}]}]
    elif family == "storage":
        spec["world"] = {"variant": "full"}
        n = rng.randrange(2, 6)
        script = [{"op": "auth"}]
        for _ in range(n):
            script.append({"op": "damage", "file": rng.randrange(3), "kind": rng.choice(
                ["truncate", "truncate", "bitflip", "sizefield", "sizefield", "remove", "empty"]), "at": rng.randrange(10_000),
                "value": rng.choice([0, 1, 7, 8, 0x7FFFFFFF, 0xFFFFFFFF, 16, 100000])})
            script.append({"op": "exercise"})
        spec["actors"] = [{"id": "storage", "kind": "storage", "role": "media", "prng": rng.getrandbits(32),
                           "script": script}]
    elif family == "light" and slot == 7:
        # legitimate management sequences (the C17 workload) under this property's oracle: an authorised, well-formed
        # request never answers 5xx either
        from . import c17
        spec["family"] = "manage"
        spec["world"] = {"variant": "full"}
        spec["actors"] = c17.generate(seed, tier, index * 4)["actors"]
    elif family == "light":
        # second stage: legitimate management operations served concurrently (pre-emption inside requests)
        from . import c17
        spec["family"] = "race"
        spec["world"] = {"variant": "full"}
        spec["actors"] = c17.generate_burst(seed, tier, index, bursts=(2, 3, 4), conflict_p=0.7)["actors"]
        for a in spec["actors"]:
            a["check_orders"] = False      # only the responses of the burst are judged here
    else:
        spec["world"] = {"variant": "full"}
        if rng.random() < 0.55:
            first = gen_inject(rng)
            spec["actors"] = [first]
            if rng.random() < 0.4:
                # a second player with its own cookie jar asks for the same injected errors: the count of failures
                # is kept per client session, the two must not disturb each other
                second = json.loads(json.dumps(first))
                second["id"] = "inj2"
                second["prng"] = rng.getrandbits(32)
                second["script"] = [st for st in second["script"] if st["op"] == "get"]
                second.pop("faults", None)
                spec["actors"].append(second)
        else:
            spec["actors"] = [gen_inject_time(rng, spec["t0_us"])]
    return spec


# ------------------------------------------------------------------------------------------ worlds
def world_template(variant: str) -> dict:
    fz = mc.forge_presets()[0]
    files = list(fz["files"])
    st = dict(fz)
    if variant == "noaudio":
        st["files"] = [f for f in files if f["forge"]["kind"] != "audio"]
    elif variant == "notiming":
        st = {**fz, "timing_ref": None}
    tmpl = {"streams": [st]}
    if variant in ("full", "noaudio"):
        tmpl["mps"] = [{"name": "mps1", "title": "multi one", "periods": [
            {"pid": "p1", "stream": "fza", "start": "PT0S", "duration": "PT6S",
             "tracks": [{"track_id": 1, "role": "main", "lang": "und", "encrypted": False}]}]}]
    if variant == "full":
        tmpl["streams"] = [st, {"dir": "enc", "title": "Encrypted <&> \"title\"", "timing_ref": "bbb_v7_enc",
                                "files": ["bbb/bbb_v7_enc.mp4", "bbb/bbb_a1_enc.mp4"],
                                "marlin_la_url": "ms3://x/y", "playready_la_url": worlds.PLAYREADY_LA}]
    return tmpl


# ------------------------------------------------------------------------------------------ hostile catalogue
def catalogue(world) -> list[tuple[str, str, dict | None]]:
    """(method, path?query, body-spec) items, in a fixed order, built from the live registry and url map."""
    from dashlive.server.options.repository import OptionsRepository
    ids = discover_ids(world)
    spk, mfid = ids.get("spk") or 1, ids.get("mfid") or 1
    sdir, mf = ids.get("stream_dir") or "fza", ids.get("mf_name") or "fza_v1"
    names = sorted(o.cgi_name for o in OptionsRepository.get_dash_options())
    targets = [
        f"/dash/live/{sdir}/hand_made.mpd", f"/dash/vod/{sdir}/hand_made.mpd", f"/dash/odvod/{sdir}/hand_made.mpd",
        f"/dash/live/{sdir}/manifest_e.mpd", f"/dash/live/{sdir}/manifest_n.mpd",
        f"/dash/live/{sdir}/{mf}/init.m4v", f"/dash/live/{sdir}/{mf}/1.m4v", f"/dash/vod/{sdir}/{mf}/2.m4v",
        f"/dash/live/{sdir}/{mf}/time/0.m4v", f"/patch/{sdir}/hand_made/1700000000",
        f"/mps/live/{ids.get('mps') or 'mps1'}/hand_made.mpd", f"/mps/vod/{ids.get('mps') or 'mps1'}/hand_made.mpd",
        f"/play/live/{sdir}/hand_made.mpd/index.html", f"/stream/{spk}", "/api/cgiOptions",
        "/time/http-ntp", "/time/iso",
    ]
    items: list[tuple[str, str, dict | None]] = []
    for t in targets:
        for name in names:
            for v in HOSTILE_VALUES:
                items.append(("GET", f"{t}?{urllib.parse.urlencode({name: v})}", None))
    # combinations that the documentation suggests
    combos = [
        {"drm": "all", "start": "epoch"}, {"drm": "playready", "playready__version": "1.0", "playready__piff": "1"},
        {"events": "ping", "ping__interval": "0"}, {"events": "ping", "ping__interval": "-5"},
        {"events": "scte35", "scte35__timescale": "0"}, {"events": "ping", "ping__timescale": "0"},
        {"events": "ping", "ping__count": "-1"}, {"events": "scte35", "scte35__count": "1000"},
        {"events": "scte35", "scte35__duration": "99999999999"}, {"events": "ping,scte35", "ping__inband": "0"},
        {"verr": "503=1"}, {"verr": "404=00:00:10Z"}, {"aerr": "503=1", "failures": "1"}, {"terr": "410=2"},
        {"merr": "503=1", "update": "1"}, {"merr": "503=00:00:00Z"}, {"vcorrupt": "00:00:04Z"}, {"vcorrupt": "abc"},
        {"vcorrupt": "1,2", "frames": "-1"}, {"patch": "1"}, {"patch": "1", "mup": "-1"}, {"time": "ntp"},
        {"time": "http-ntp", "ntp_servers": "google"}, {"time": "iso", "time_value": "x"}, {"depth": "0"},
        {"depth": "-5"}, {"start": "now", "depth": "0"}, {"leeway": "-1"}, {"mup": "0"}, {"drift": "-100000000"},
        {"drift": "99999999999"}, {"start": "2999-01-01T00:00:00Z"}, {"start": "1000-01-01T00:00:00Z"},
        {"acodec": "ec-3"}, {"acodec": "bogus"}, {"tcodec": "bogus"}, {"main_audio": "nope", "ad_audio": "nope"},
        {"drm": "clearkey", "clearkey__la_url": "http://x/?a=b&c=d"}, {"drm": "marlin", "marlin__la_url": "%ZZ"},
        {"drm": "playready", "playready__la_url": "https://x/{cfgs}/{kid}/{missing}"},
        {"player": "bogus"}, {"dashjs": "0.0.0"}, {"shaka": "x"},
    ]
    for t in targets:
        for c in combos:
            items.append(("GET", f"{t}?{urllib.parse.urlencode(c)}", None))
    # every routing rule with plausible and implausible path variables
    rules = sorted(world.app.url_map.iter_rules(), key=lambda r: (r.rule, r.endpoint))
    adapter = world.app.url_map.bind("sim.dashlive.test")
    fills = [
        {"spk": spk, "mfid": mfid, "kpk": ids.get("kpk") or 1, "upk": 1, "mps_name": ids.get("mps") or "mps1",
         "stream": sdir, "manifest": "hand_made.mpd", "mode": "live", "filename": mf, "ext": "mp4",
         "segment_num": "1", "segment_time": 0, "segnum": 1, "ppk": ids.get("ppk") or 1, "publish": 1700000000,
         "method": "iso", "username": "user"},
        {"spk": 9999, "mfid": 9999, "kpk": 9999, "upk": 9999, "mps_name": "ghost", "stream": "ghost",
         "manifest": "bogus.mpd", "mode": "vod", "filename": "ghost", "ext": "m4s", "segment_num": "99999999",
         "segment_time": 2 ** 62, "segnum": 99999, "ppk": 9999, "publish": 2 ** 40, "method": "xsd",
         "username": "ghost"},
        {"spk": spk, "mfid": mfid, "kpk": 1, "upk": 2, "mps_name": ids.get("mps") or "mps1", "stream": sdir,
         "manifest": "manifest_vod_aiv.mpd", "mode": "odvod", "filename": mf, "ext": "m4a", "segment_num": "init",
         "segment_time": 1500, "segnum": 0, "ppk": ids.get("ppk") or 1, "publish": 0, "method": "http-ntp",
         "username": "admin"},
    ]
    for rule in rules:
        if rule.endpoint == "static":
            continue
        for fill in fills:
            values = {a: fill.get(a, "1") for a in rule.arguments}
            try:
                path = adapter.build(rule.endpoint, values)
            except Exception:  # noqa: BLE001
                continue
            for method in ("GET", "HEAD", "POST", "PUT", "DELETE"):
                for body in (None, "json-empty", "json-junk", "form-junk", "json-list", "form-plausible", "json-plausible"):
                    if method in ("GET", "HEAD", "DELETE") and body not in (None, "json-junk"):
                        continue
                    items.append((method, path + ("?ajax=1" if body in ("json-junk", "json-plausible") and method != "GET" else ""),
                                  {"kind": body} if body else None))
    # the same bodies carrying a CSRF token that is valid for the service of the route (authorised role only):
    # they reach the code behind the CSRF check.  Kept at the end of the catalogue because they may really
    # delete or rename things.
    for rule in rules:
        if rule.endpoint == "static":
            continue
        values = {a: fills[0].get(a, "1") for a in rule.arguments}
        try:
            path = adapter.build(rule.endpoint, values)
        except Exception:  # noqa: BLE001
            continue
        for method in sorted((rule.methods or set()) & {"POST", "PUT", "DELETE"}):
            for body in ("json-empty-tok", "json-junk-tok", "form-junk-tok", "json-partial-tok", "form-plausible-tok",
                         "json-plausible-tok"):
                if method == "DELETE" and body != "json-empty-tok":
                    continue
                items.append((method, path + ("?ajax=1" if body.startswith("json") else ""), {"kind": body}))
    # licence endpoint bodies
    for body in ({"kids": ["AAAAAAAAAAAAAAAAAAAAAA"], "type": "temporary"}, {"kids": "x"}, {"kids": [1, None]}, [], 5,
                 {"kids": ["!!"], "type": "t"}, {"kids": []}, {}):
        items.append(("POST", "/clearkey", {"kind": "json", "value": body}))
    return items


JUNK = {"csrf_token": "junk", "title": 5, "directory": None, "name": ["x"], "periods": "notalist", "username": {},
        "password": 1, "email": None, "track_id": "x", "lang": 7, "kid": 1, "kids": 7, "type": None, "pk": "x",
        "timing_ref": 5, "marlin_la_url": 1, "playready_la_url": []}


# well-typed, plausible field values: they pass the field validation and reach the code behind it (with a junk CSRF
# token: the failure paths of the handlers; with a valid one: the handlers themselves)
PLAUSIBLE = {"csrf_token": "junk", "title": "hostile title", "directory": "hdir", "name": "hname", "periods": [],
             "username": "huser", "password": "pw123456", "confirmPassword": "pw123456", "email": "h@x.test",
             "track_id": "1", "lang": "eng", "kid": "ab" * 16, "hkid": "ab" * 16, "hkey": "cd" * 16, "new_key": "1",
             "timing_ref": "", "marlin_la_url": "", "playready_la_url": "", "kids": [], "type": "temporary", "pk": None}


class Hostile(RoleClient):
    kind = "hostile"

    async def run(self) -> None:
        world = self.sim.world
        if self.role != "anonymous":
            await self.authenticate()
        for step in self.script:
            if step["op"] != "slice":
                continue
            items = catalogue(world)
            self.sim.world.probe("c16.catalogue-size", 0)
            self.sim.catalogue_size = len(items)
            for i, (method, target, body) in enumerate(items):
                if i % N_SLICES != step["n"]:
                    continue
                headers = {}
                data = None
                if body and body["kind"].endswith("-tok"):
                    if self.role == "anonymous":
                        continue
                    path = urllib.parse.urlsplit(target).path
                    service = ("kids" if path.startswith("/key") else
                               "files" if re.search(r"^/stream/\d+/\d+|^/media/(index|inspect)", path) else
                               "upload" if path.startswith("/media") else "streams")
                    tok = await self.api.token(service, discover_ids(world).get("spk")) or "junk"
                    junk = {"json-empty-tok": {}, "json-junk-tok": dict(JUNK), "form-junk-tok": dict(JUNK),
                            "form-plausible-tok": dict(PLAUSIBLE), "json-plausible-tok": dict(PLAUSIBLE),
                            "json-partial-tok": {"title": "t", "directory": 7, "name": "n", "kid": "zz", "track_id": "1",
                                                 "lang": ["en"], "periods": [{"pid": 1}], "username": "u"}}[body["kind"]]
                    junk["csrf_token"] = tok
                    if method == "DELETE":
                        target += ("&" if "?" in target else "?") + urllib.parse.urlencode({"csrf_token": tok})
                    elif body["kind"] == "form-plausible-tok":
                        data, headers["Content-Type"] = form({k: v for k, v in junk.items() if isinstance(v, str)})
                    elif body["kind"].startswith("form"):
                        data, headers["Content-Type"] = form({k: str(v) for k, v in junk.items()})
                    else:
                        data, headers["Content-Type"] = json.dumps(junk).encode(), "application/json"
                    if self.api.access_token:
                        headers["Authorization"] = f"Bearer {self.api.access_token}"
                elif body:
                    kind = body["kind"]
                    if kind == "json-empty":
                        data, headers["Content-Type"] = b"{}", "application/json"
                    elif kind == "json-junk":
                        data, headers["Content-Type"] = json.dumps(JUNK).encode(), "application/json"
                    elif kind == "json-list":
                        data, headers["Content-Type"] = b"[1, 2]", "application/json"
                    elif kind == "form-junk":
                        data, headers["Content-Type"] = form({k: str(v) for k, v in JUNK.items()})
                    elif kind == "form-plausible":
                        data, headers["Content-Type"] = form({k: v for k, v in PLAUSIBLE.items() if isinstance(v, str)})
                    elif kind == "json-plausible":
                        data, headers["Content-Type"] = json.dumps(PLAUSIBLE).encode(), "application/json"
                    elif kind == "json":
                        data, headers["Content-Type"] = json.dumps(body["value"]).encode(), "application/json"
                try:
                    await self.request(method, BASE + target, headers=headers, body=data)
                except NetTimeout:
                    pass


class ResponseOracle:
    """5xx / unhandled exception / step-budget oracle shared by the three families."""

    def __init__(self, sim: Sim) -> None:
        self.sim = sim

    def after_delivery(self, msg: Message, resp: Response) -> None:
        sim = self.sim
        world = sim.world
        sim.check("c16-response")
        endpoint = _endpoint(world, msg)
        if isinstance(resp.exc, SimHang):
            sim.violate("unbounded", endpoint, f"step budget exhausted: {msg.method} {msg.url}")
            return
        if resp.status >= 500 or resp.exc is not None:
            if resp.exc is None and resp.body.startswith(b"Synthetic ") and _asked_for(msg.url, resp.status):
                sim.world.probe("c16.synthetic-5xx")
                return
            sim.violate("unhandled", f"{endpoint}/{exc_site(resp.exc)}",
                        f"{resp.status} for {msg.method} {msg.url[:300]}: "
                        f"{type(resp.exc).__name__ if resp.exc else 'no exception captured'}: {str(resp.exc)[:200]}")


class RaceOracle:
    """No request answers 5xx - also when it is served together with others.  A statement that gave up waiting for
    SQLite's write lock (every live request was waiting) is the one failure a busy timeout legitimately produces and
    is counted, not judged."""

    def __init__(self, sim: Sim) -> None:
        self.sim = sim

    def on_burst(self, actor, st: dict, reqs: list[dict], outcome: dict) -> None:
        sim = self.sim
        if outcome.get("interleaved"):
            sim.world.probe("c16.burst-interleaved")
        for i, (req, resp) in enumerate(zip(reqs, outcome["results"])):
            sim.check("c16-race-response")
            if i in outcome["aborted"]:
                sim.world.probe("c16.race-lock-timeout")
                continue
            if resp.status >= 500 or resp.exc is not None:
                others = "+".join(sorted(r["recipe"]["op"] for r in reqs if r is not req))
                sim.violate("race-unhandled", f"{req['recipe']['op']}/{exc_site(resp.exc)}",
                            f"{resp.status} for {req['method']} {req['url'][:160]} served concurrently with {others}: "
                            f"{type(resp.exc).__name__ if resp.exc else ''}: {str(resp.exc)[:200]}; schedule "
                            f"{[(t, l) for t, l in outcome['schedule']][:50]}")


def _asked_for(url: str, status: int) -> bool:
    q = urllib.parse.parse_qs(urllib.parse.urlsplit(url).query)
    for name in ("verr", "aerr", "terr", "merr"):
        for v in q.get(name, []):
            if f"{status}=" in v:
                return True
    return False


def _endpoint(world, msg: Message) -> str:
    try:
        adapter = world.app.url_map.bind("sim.dashlive.test")
        ep, _ = adapter.match(urllib.parse.urlsplit(msg.url).path, method=msg.method)
        return ep
    except Exception:  # noqa: BLE001
        return "unrouted"


# ------------------------------------------------------------------------------------------ storage damage
class Storage(RoleClient):
    kind = "storage"

    async def run(self) -> None:
        import struct
        from ..oracles import isobmff
        world = self.sim.world
        for step in self.script:
            op = step["op"]
            if op == "auth":
                await self.authenticate()
                await self.api.fetch_media_info()
            elif op == "damage":
                files = sorted(p for p in world.blob_dir.rglob("*.mp4"))
                if not files:
                    continue
                path = files[step["file"] % len(files)]
                data = bytearray(path.read_bytes())
                if not data and step["kind"] not in ("remove", "empty"):
                    continue        # already emptied by an earlier step: nothing left to damage
                try:
                    root = isobmff.parse(bytes(data))
                    bounds = []

                    def walk(b):
                        bounds.append(b.start)
                        bounds.append(b.end)
                        for c in b.children:
                            walk(c)
                    for c in root.children:
                        walk(c)
                    bounds = sorted(set(bounds))
                except Exception:  # noqa: BLE001
                    bounds = [0, len(data)]
                kind = step["kind"]
                if kind in ("remove", "empty"):
                    # the file vanishes (deleted behind the server's back, lost with a crash between a commit and
                    # the file operation that belongs to it) or is left with no content at all
                    if kind == "remove":
                        path.unlink()
                    else:
                        path.write_bytes(b"")
                    world.fired(f"disk.{kind}")
                    world.note(self.id, f"damage {path.name} {kind}")
                    continue
                if kind == "truncate":
                    b = bounds[step["at"] % len(bounds)] + [-1, 0, 1, 4, 9][step["at"] % 5]
                    data = data[:max(1, min(len(data) - 1, b))]
                elif kind == "bitflip":
                    b = bounds[step["at"] % len(bounds)]
                    pos = min(len(data) - 1, b + step["at"] % 12)
                    data[pos] ^= 1 << (step["at"] % 8)
                else:
                    b = bounds[step["at"] % len(bounds)]
                    if b + 4 <= len(data):
                        struct.pack_into(">I", data, b, step["value"] & 0xFFFFFFFF)
                path.write_bytes(bytes(data))
                world.fired(f"disk.{kind}")
                world.note(self.id, f"damage {path.name} {kind}@{step['at']}")
            elif op == "exercise":
                await self.exercise()

    async def exercise(self) -> None:
        world = self.sim.world
        ids = discover_ids(world)
        rows = world.table_rows()
        mf = rows.get("media_file", [])
        cols = mf[0] if mf else ()
        for r in mf[1:]:
            m = dict(zip(cols, r))
            spk, mfid = m["stream"], m["pk"]
            sdir = next((s[2] for s in rows["Stream"][1:] if s[0] == spk), "x")
            await self.api.index(mfid, spk)
            for url in (f"/stream/{spk}/{mfid}?ajax=1", f"/stream/{spk}/{mfid}/segments?ajax=1",
                        f"/stream/{spk}/{mfid}/segment/0?ajax=1", f"/stream/{spk}/{mfid}/segment/1?ajax=1",
                        f"/dash/vod/{sdir}/{m['name']}/init.mp4", f"/dash/vod/{sdir}/{m['name']}/1.mp4",
                        f"/dash/vod/{sdir}/{m['name']}/2.mp4", f"/dash/vod/{sdir}/hand_made.mpd",
                        f"/dash/live/{sdir}/hand_made.mpd?timeline=1", f"/dash/odvod/{sdir}/hand_made.mpd"):
                try:
                    await self.request("GET", BASE + url)
                except NetTimeout:
                    pass
            try:
                await self.request("GET", BASE + f"/dash/odvod/{sdir}/{m['name']}.mp4", headers={"Range": "bytes=0-99"})
            except NetTimeout:
                pass
        # inspect endpoint with the damaged bytes
        await self._send("GET", BASE + "/media/inspect")
        tok = self.take("files")
        files = sorted(p for p in world.blob_dir.rglob("*.mp4"))
        if tok and files:
            f = files[self.rng.randrange(len(files))]
            body, ct = multipart({"csrf_token": tok, "ajax": "1"}, [("file", f.name, f.read_bytes()[:400_000], "video/mp4")],
                                 "dsimstorage")
            try:
                await self.request("POST", BASE + "/media/inspect", headers={"Content-Type": ct}, body=body)
            except NetTimeout:
                pass


# ------------------------------------------------------------------------------------------ error injection
def gen_inject(rng) -> dict:
    kind = rng.choice(["video", "video", "audio"])     # the forged text track has only two segments
    code = rng.choice([404, 410, 503, 504, 503])
    k = rng.choice([None, 0, 1, 2, 3]) if code >= 500 else None
    target = rng.randrange(2, 5)
    script = []
    for _ in range(rng.randrange(6, 20)):
        script.append({"op": "get", "n": target + rng.choice([0, 0, 0, 0, -1, 1]), "kind": kind})
        r = rng.random()
        if r < 0.08:
            script.append({"op": "cookie_loss"})
        elif r < 0.12:
            script.append({"op": "restart"})
    a = {"id": "inj", "kind": "inject", "prng": rng.getrandbits(32), "latency": {"min_us": 0, "jitter_us": 0},
         "err": {"kind": kind, "code": code, "failures": k, "target": target, "mode": rng.choice(["vod", "live"])},
         "script": script}
    if rng.random() < 0.3:
        a["faults"] = [{"msg": rng.randrange(2, 12), "kind": rng.choice(["net.dup", "net.drop_resp"])}]
    return a


def gen_inject_time(rng, t0_us: int) -> dict:
    """An error addressed by time of day: the manifest translates it per media type, the player then asks for
    the segments around it with the URLs the manifest spells out."""
    kind = rng.choice(["video", "audio"])
    back = rng.randrange(2, 28)
    tod = (t0_us // 1_000_000 - back) % 86400
    return {"id": "injt", "kind": "inject_time", "prng": rng.getrandbits(32), "latency": {"min_us": 0, "jitter_us": 0},
            "err": {"kind": kind, "code": rng.choice([404, 410, 503, 504]), "tod": tod,
                    "manifest": rng.choice(["hand_made.mpd", "manifest_e.mpd", "manifest_n.mpd"]),
                    "stream": rng.choice(["fza", "enc"]), "start": rng.choice(["today", "today", "epoch", "month"]),
                    "failures": rng.choice([None, None, 1])},
            "script": []}


class TimeInjector(Actor):
    """verr/aerr=<code>=<HH:MM:SS>Z on a live manifest, then the segments around the addressed instant."""

    kind = "inject_time"

    def __init__(self, sim, spec) -> None:
        super().__init__(sim, spec)
        self.err = spec["err"]

    async def run(self) -> None:
        from fractions import Fraction
        from ..oracles import mpd as mpdlib
        sim = self.sim
        e = self.err
        tod = e["tod"]
        name = {"video": "verr", "audio": "aerr"}[e["kind"]]
        q = {name: f"{e['code']}={tod // 3600:02d}:{tod // 60 % 60:02d}:{tod % 60:02d}Z", "start": e["start"]}
        if e["failures"] is not None:
            q["failures"] = str(e["failures"])
        url = BASE + f"/dash/live/{e['stream']}/{e['manifest']}?" + urllib.parse.urlencode(q)
        try:
            resp = await self.get(url)
        except NetTimeout:
            return
        if resp.status != 200:
            return
        fetched = simclock.CLOCK.us
        try:
            m = mpdlib.parse(resp.body, url)
        except Exception:  # noqa: BLE001 - well-formedness is C05's subject
            return
        subj = f"time/{e['kind']}/code{e['code']}"
        for period in m.periods:
            for aset in period.asets:
                if (aset.content_type or "video") != e["kind"] or not aset.reps:
                    continue
                rep = aset.reps[0]
                tmpl = rep.template
                if tmpl is None or not tmpl.duration or not tmpl.media or "$Number" not in tmpl.media or m.ast_us is None:
                    continue
                day0 = m.ast_us - m.ast_us % 86_400_000_000
                tm = day0 + tod * 1_000_000
                if m.tsbd is None or not (fetched - int(m.tsbd * 1_000_000) + 4_000_000 < tm < fetched) or tm < m.ast_us:
                    sim.world.probe("c16.inject-time-outside-window")
                    continue
                exact = Fraction((tm - m.ast_us) * tmpl.timescale, tmpl.duration * 1_000_000)
                if exact.denominator == 1:
                    continue            # on a segment boundary: either neighbour may be meant
                target = tmpl.start_number + int(exact)
                for n in (target - 1, target, target + 1):
                    seg_url = mpdlib.segment_url(rep, tmpl.media, number=n)
                    try:
                        r = await self.get(seg_url)
                    except NetTimeout:
                        continue
                    sim.check("c16-inject-time")
                    if n == target and r.status != e["code"]:
                        sim.violate("inject-time-missed", subj,
                                    f"segment {n} contains the addressed time but answered {r.status}; {seg_url} "
                                    f"(manifest {url})")
                    elif n != target and r.status not in (200, 404):
                        sim.violate("inject-time-hit-other-request", subj,
                                    f"segment {n} answered {r.status}, the addressed time lies in segment {target}; "
                                    f"{seg_url} (manifest {url})")
                break


class Injector(Actor):
    """Requests media segments by number with an error-injection spec; judged against a reference model."""

    kind = "inject"

    def __init__(self, sim, spec) -> None:
        super().__init__(sim, spec)
        self.err = spec["err"]
        self.script = spec["script"]
        self.fail_seen = 0          # model: failures observed since the last success for the target
        self.slack = 0              # lost responses / duplicates widen the bound narrowly

    def url(self, n: int) -> str:
        e = self.err
        name = {"video": ("fza_v1", "m4v", "verr"), "audio": ("fza_a1", "m4a", "aerr"), "text": ("fza_t1", "mp4", "terr")}[e["kind"]]
        q = {name[2]: f"{e['code']}={e['target']}"}
        if e["failures"] is not None:
            q["failures"] = str(e["failures"])
        if e["mode"] == "live":
            q["start"] = "epoch"
        base_n = n
        if e["mode"] == "live":
            # a live number inside the window: offset from the newest available number
            base_n = self.live_base + n
            q[name[2]] = f"{e['code']}={self.live_base + e['target']}"
        return BASE + f"/dash/{e['mode']}/fza/{name[0]}/{base_n}.{name[1]}?" + urllib.parse.urlencode(q)

    async def run(self) -> None:
        sim = self.sim
        e = self.err
        # newest live number of the reference video grid, computed from the clock only (epoch start)
        dur = {"video": (1999, 1000), "audio": (88268, 44100), "text": (38, 7)}[e["kind"]]
        self.live_base = int(simclock.CLOCK.us / 1e6 * dur[1] / dur[0]) - 12
        for step in self.script:
            if step["op"] == "cookie_loss":
                self.jar.clear()
                sim.world.fired("client.cookie_loss")
                self.fail_seen = 0
                self.slack += (e["failures"] or 0) + 1
                continue
            if step["op"] == "restart":
                sim.restart(self.id)
                continue
            n = step["n"]
            fault = self.fault_plan.get(self.msg_index + 1)
            try:
                resp = await self.get(self.url(n))
            except NetTimeout:
                self.slack += 2
                continue
            if fault:
                self.slack += 2
            self.judge(n, resp)

    def judge(self, n: int, resp: Response) -> None:
        sim = self.sim
        e = self.err
        subj = f"{e['kind']}/{e['mode']}/code{e['code']}/failures={e['failures']}"
        sim.check("c16-inject")
        if n != e["target"]:
            if resp.status != 200:
                sim.violate("inject-hit-other-request", subj,
                            f"segment {n} (target is {e['target']}) answered {resp.status}; {self.url(n)}")
            return
        code = e["code"]
        if code < 500 or e["failures"] is None:
            if resp.status != code:
                sim.violate("inject-missed", subj, f"addressed segment answered {resp.status}, expected {code}; {self.url(n)}")
            return
        k = e["failures"]
        if resp.status == code:
            self.fail_seen += 1
            if self.fail_seen > k + self.slack:
                sim.violate("inject-too-many", subj,
                            f"{self.fail_seen} consecutive {code} responses with failures={k} (slack {self.slack}); {self.url(n)}")
        elif resp.status == 200:
            if self.fail_seen < k and self.slack == 0:
                sim.violate("inject-too-few", subj,
                            f"success after only {self.fail_seen} failures with failures={k}; {self.url(n)}")
            self.fail_seen = 0
        else:
            sim.violate("inject-wrong-status", subj, f"{resp.status}; {self.url(n)}")


def execute(spec: dict) -> dict:
    template = world_template(spec["world"]["variant"])
    simclock.CLOCK.us = spec["t0_us"]
    world, info = worlds.instantiate("run", template, secrets_seed=base.sub_seed(spec["seed"], "secrets"))
    try:
        simclock.CLOCK.us = spec["t0_us"]
        if spec["world"]["variant"] == "unindexed":
            # wipe the parsed representation of every media file (as if indexing never happened)
            import sqlite3
            con = sqlite3.connect(world.db_file)
            con.execute("update media_file set rep=NULL, content_type=NULL, track_id=NULL, codec_fourcc=NULL")
            con.commit()
            con.close()
        world.step_budget = STEP_BUDGET
        if spec["family"] == "race":
            world.stop()
            world.preemptive = True
            world.step_budget = 0        # the budget counter is per interpreter, not per thread
            world.start()
        sim = Sim(world, spec["sched_seed"])
        oracle = ResponseOracle(sim)
        sim.after_delivery = oracle.after_delivery
        actors = []
        for a in spec["actors"]:
            if a["kind"] == "burster":
                from ..actors.burster import Burster
                b = Burster(sim, a)
                b.observers = [RaceOracle(sim)]
                actors.append(b)
                continue
            if a["kind"] == "manager":
                from ..actors.manager import Manager
                actors.append(Manager(sim, a))
                continue
            cls = {"hostile": Hostile, "storage": Storage, "inject": Injector, "inject_time": TimeInjector}[a["kind"]]
            actors.append(cls(sim, a))
        sim.run(actors, max_steps=6_000_000)
        return base.outcome(ID, spec, sim, world, nontrivial=bool(sim.checks.get("c16-response", 0) >= 20 or sim.checks.get("c16-race-response")),
                            extra={"sim_seconds": (simclock.CLOCK.us - spec["t0_us"]) / 1e6,
                                   "counters": {f"family.{spec['family']}": 1,
                                                "catalogue_items": getattr(sim, "catalogue_size", 0)}})
    finally:
        world.destroy()
