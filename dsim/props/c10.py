"""C10 — init segments carry exactly the requested protection data, nothing else changes."""
from __future__ import annotations

from . import media_common as mc

ID = "C10"
LEVEL = "exploration"


def budget(tier: str) -> dict:
    return {"runs": 500, "wall_s": 60} if tier == "quick" else {"runs": 15000, "wall_s": 840}


def generate(seed: int, tier: str, index: int) -> dict:
    spec = mc.generate_live(ID, seed, tier, index, richness=0.9, seg_cap=12, wakeups=(1, 3), select=["edges"],
                            forge_p=0.25)
    mc.add_static_sessions(spec, seed, media=False)
    return spec


def execute(spec: dict) -> dict:
    return mc.execute_live(ID, spec, {"C10"}, ("c10-init",))
