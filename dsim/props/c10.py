"""C10 — init segments carry exactly the requested protection data, nothing else changes."""
from __future__ import annotations

from . import media_common as mc

ID = "C10"
LEVEL = "exploration"


def budget(tier: str) -> dict:
    return {"runs": 500, "wall_s": 60} if tier == "quick" else {"runs": 15000, "wall_s": 840}


def generate(seed: int, tier: str, index: int) -> dict:
    spec = mc.generate_live(ID, seed, tier, index, richness=0.9, seg_cap=12, wakeups=(1, 3), select=["edges"],
                            forge_p=0.25)
    # the statement covers both modes: every player also asks for static manifests of its stream (before, between
    # and after its live sessions - the order matters for anything the server keeps between requests); the player
    # fetches the initialization segments a static manifest spells out
    from . import base, c06
    from .. import optgen
    rng = base.rng_for(seed, "gen-vod")
    for a in spec["actors"]:
        if not a["id"].startswith("obs"):
            continue
        first = next((s for s in a["script"] if s["op"] == "manifest"), None)
        if first is None:
            continue
        stream = first["path"].split("/")[3]
        for _ in range(rng.choice([1, 2, 2, 3])):
            manifest = rng.choice([m for m, mode in c06.VOD_TEMPLATES if mode == "vod"])
            q = c06.vod_vector(rng, manifest, "vod", encrypted_ok=(stream == "bbb"))
            if stream == "bbb" and rng.random() < 0.5:
                q["drm"] = optgen.gen_drm(rng)
            pos = rng.choice([0, len(a["script"]), rng.randrange(0, len(a["script"]) + 1)])
            # never split a manifest from the segments step that follows it
            while 0 < pos < len(a["script"]) and a["script"][pos]["op"] == "segments":
                pos += 1
            a["script"][pos:pos] = [{"op": "manifest", "path": f"/dash/vod/{stream}/{manifest}", "q": q},
                                    {"op": "segments", "select": "edges", "max": 12}]
    return spec


def execute(spec: dict) -> dict:
    return mc.execute_live(ID, spec, {"C10"}, ("c10-init",))
