"""World: one simulated deployment of dash-live (app object + SQLite file + blob directory).

Owns the process seam (start / restart / crash), the WSGI driver used by SimNet, the trace, and the
state hashing used by the management-side oracles.
"""
from __future__ import annotations

import hashlib
import io
import json
import os
import random
import shutil
import sqlite3
import threading
import urllib.parse
from dataclasses import dataclass, field
from pathlib import Path
from typing import Any

from . import boot
from . import clock as simclock

SERVER_HOST = "sim.dashlive.test"
SCRATCH_ROOT = Path(os.environ.get("DSIM_SCRATCH", "/dev/shm")) / f"dsim-{os.getpid()}"
# response bodies that quote a path below the scratch directory (which carries the pid) must not change the trace digest
_ROOT_BYTES = str(SCRATCH_ROOT).encode()


class SimCrash(BaseException):
    """Process crash injected at an I/O seam (never caught by application code)."""


class SimHang(BaseException):
    """Deterministic step budget exceeded inside one request."""


class _WallClockExceeded(BaseException):
    """Raised by the SIGALRM watchdog inside a request; converted to HarnessError outside the application."""


class HarnessError(Exception):
    """The simulator itself is wrong (never reported as a property violation)."""


@dataclass
class Response:
    status: int
    headers: list[tuple[str, str]]
    body: bytes
    exc: BaseException | None = None
    fault: str | None = None

    def header(self, name: str, default: str | None = None) -> str | None:
        lname = name.lower()
        for k, v in self.headers:
            if k.lower() == lname:
                return v
        return default

    def headers_all(self, name: str) -> list[str]:
        lname = name.lower()
        return [v for k, v in self.headers if k.lower() == lname]

    @property
    def text(self) -> str:
        return self.body.decode("utf-8", "replace")

    def json(self) -> Any:
        return json.loads(self.body.decode("utf-8"))


class CookieJar:
    """Minimal RFC 6265 jar for one simulated client (host-only, path ignored: one server)."""

    def __init__(self) -> None:
        self.cookies: dict[str, tuple[str, int | None]] = {}

    def header(self, now_us: int) -> str | None:
        live = []
        for name in sorted(self.cookies):
            val, exp = self.cookies[name]
            if exp is not None and exp <= now_us:
                continue
            live.append(f"{name}={val}")
        return "; ".join(live) if live else None

    def update(self, set_cookie_headers: list[str], now_us: int) -> None:
        for hdr in set_cookie_headers:
            parts = [p.strip() for p in hdr.split(";")]
            if not parts or "=" not in parts[0]:
                continue
            name, _, val = parts[0].partition("=")
            exp: int | None = None
            max_age: int | None = None
            for attr in parts[1:]:
                k, _, v = attr.partition("=")
                k = k.lower()
                if k == "max-age":
                    try:
                        max_age = int(v)
                    except ValueError:
                        pass
                elif k == "expires":
                    try:
                        from email.utils import parsedate_to_datetime
                        d = parsedate_to_datetime(v)
                        delta = d - simclock.EPOCH
                        exp = (delta.days * 86400 + delta.seconds) * 1_000_000
                    except (TypeError, ValueError):
                        pass
            if max_age is not None:
                exp = now_us + max_age * 1_000_000
            if (exp is not None and exp <= now_us) or val == "":
                self.cookies.pop(name, None)
            else:
                self.cookies[name] = (val, exp)

    def snapshot(self) -> dict:
        return dict(self.cookies)

    def restore(self, snap: dict) -> None:
        self.cookies = dict(snap)

    def clear(self) -> None:
        self.cookies.clear()


@dataclass
class TraceRecord:
    seq: int
    t_us: int
    actor: str
    method: str
    target: str
    status: int
    body_sha: str
    fault: str | None = None

    def line(self) -> str:
        return f"{self.seq}|{self.t_us}|{self.actor}|{self.method}|{self.target}|{self.status}|{self.body_sha}|{self.fault or ''}"


BASE_CONFIG = {
    "DASH": {
        "ALLOWED_DOMAINS": "*",
        "CSRF_SECRET": "dsim.csrf.secret",
        "DEFAULT_ADMIN_USERNAME": "admin",
        "DEFAULT_ADMIN_PASSWORD": "adm1nPassw0rd",
    },
    "SECRET_KEY": "dsim.cookie.secret",
    "JWT_SECRET_KEY": "dsim.jwt.secret",
    "TESTING": False,
    "PROPAGATE_EXCEPTIONS": False,
    "LOG_LEVEL": "critical",
    "PREFERRED_URL_SCHEME": "http",
}


class World:
    def __init__(self, name: str = "w", secrets_seed: int = 0) -> None:
        boot.bootstrap()
        self.name = name
        self.root = SCRATCH_ROOT / name
        self.instance = self.root / "instance"
        self.db_file = self.instance / "models.db3"
        self.blob_dir = self.instance / "media" / "blobs"
        self.app = None
        self.trace: list[TraceRecord] = []
        self.seq = 0
        self.restarts = 0
        self.globals_reset: dict[str, int] = {}
        self.exceptions: list[tuple[int, str, str]] = []
        self.faults_fired: dict[str, int] = {}
        self.probes: dict[str, int] = {}
        self.requests = 0
        self._exc_by_thread: dict[int, BaseException] = {}
        self.preemptive = False       # second stage: connections that park at every statement (dsim.preempt)
        self.step_budget = 0
        self.request_wall_s = 60.0    # real-time watchdog: a HARNESS error, never a verdict
        boot.SECRETS.reseed(secrets_seed)

    # ------------------------------------------------------------------ lifecycle
    def create_dirs(self, fresh: bool = True) -> None:
        if fresh and self.root.exists():
            shutil.rmtree(self.root)
        self.instance.mkdir(parents=True, exist_ok=True)

    def config(self) -> dict:
        cfg = json.loads(json.dumps(BASE_CONFIG))
        cfg["SQLALCHEMY_DATABASE_URI"] = f"sqlite:///{self.db_file}"
        if self.preemptive:
            from . import preempt
            cfg["SQLALCHEMY_ENGINE_OPTIONS"] = preempt.ENGINE_OPTIONS
        return cfg

    def start(self) -> None:
        from dashlive.server.app import create_app
        import flask
        self.instance.mkdir(parents=True, exist_ok=True)
        app = create_app(config=self.config(), instance_path=str(self.instance),
                         create_default_user=False, wss=False)
        app.config["BLOB_FOLDER"] = str(self.blob_dir)
        self.app = app
        # template compilation cache shared by the app objects of one worker (pure speed-up)
        import jinja2
        cache_dir = SCRATCH_ROOT / "jinja-cache"
        cache_dir.mkdir(parents=True, exist_ok=True)
        app.jinja_env.bytecode_cache = jinja2.FileSystemBytecodeCache(str(cache_dir))
        flask.got_request_exception.connect(self._on_exception, app)
        simclock.rescan()

    def _on_exception(self, sender, exception, **extra) -> None:
        self._exc_by_thread[threading.get_ident()] = exception

    def stop(self) -> None:
        if self.app is None:
            return
        from dashlive.server.models.db import db
        import flask
        try:
            flask.got_request_exception.disconnect(self._on_exception, self.app)
        except Exception:  # noqa: BLE001
            pass
        with self.app.app_context():
            try:
                db.session.remove()
            finally:
                for engine in db.engines.values():
                    engine.dispose()
        self.app = None

    def restart(self) -> None:
        """Process restart: only the SQLite file and the blob directory survive."""
        self.stop()
        boot.restore_globals(self.globals_reset)
        self.start()
        self.restarts += 1
        self.fired("proc.restart")

    def destroy(self) -> None:
        self.stop()
        shutil.rmtree(self.root, ignore_errors=True)

    # ------------------------------------------------------------------ bookkeeping
    def fired(self, kind: str, n: int = 1) -> None:
        self.faults_fired[kind] = self.faults_fired.get(kind, 0) + n

    def probe(self, name: str, n: int = 1) -> None:
        self.probes[name] = self.probes.get(name, 0) + n

    def digest(self) -> str:
        h = hashlib.sha1()
        for rec in self.trace:
            h.update(rec.line().encode("utf-8", "replace"))
            h.update(b"\n")
        return h.hexdigest()

    # ------------------------------------------------------------------ WSGI driver
    def handle(self, actor: str, method: str, url: str, headers: dict[str, str] | None = None,
               body: bytes | None = None, jar: CookieJar | None = None,
               fault: str | None = None, record: bool = True, threaded: bool = False) -> Response:
        """Execute one request against the current app object (atomic, zero simulated duration)."""
        from werkzeug.test import EnvironBuilder, run_wsgi_app
        if self.app is None:
            raise HarnessError("server is not running")
        parts = urllib.parse.urlsplit(url)
        if parts.netloc and parts.netloc != SERVER_HOST:
            raise HarnessError(f"request to foreign host {parts.netloc!r}: {url}")
        hdrs = dict(headers or {})
        host = hdrs.pop("Host", SERVER_HOST)
        now_us = simclock.CLOCK.us
        if jar is not None and "Cookie" not in hdrs:
            ck = jar.header(now_us)
            if ck:
                hdrs["Cookie"] = ck
        builder = EnvironBuilder(
            path=parts.path or "/", query_string=parts.query, method=method,
            base_url=f"http://{SERVER_HOST}/", headers=hdrs,
            input_stream=io.BytesIO(body) if body is not None else None,
            content_length=len(body) if body is not None else None)
        try:
            environ = builder.get_environ()
        finally:
            builder.close()
        environ["HTTP_HOST"] = host
        environ["REMOTE_ADDR"] = "10.0.0.1"
        self._exc_by_thread.pop(threading.get_ident(), None)
        self.requests += 1
        if threaded:
            # a request of a burst: runs on its own baton-passing thread (no signal based watchdog there)
            status_code, resp_headers, data, exc = self._call_inner(environ, run_wsgi_app)
        else:
            status_code, resp_headers, data, exc = self._call(environ, run_wsgi_app)
        resp = Response(status=status_code, headers=resp_headers, body=data, exc=exc, fault=fault)
        if jar is not None:
            jar.update(resp.headers_all("Set-Cookie"), now_us)
        if exc is not None:
            self.exceptions.append((self.seq, f"{method} {url}", f"{type(exc).__name__}: {exc}"))
        if record:
            self.record(actor, method, url, resp.status, resp.body, fault)
        return resp

    def _call(self, environ, run_wsgi_app):
        import signal

        def _too_slow(signum, frame):
            # not an Exception: the application must not be able to turn the watchdog into a 500 response, which a
            # check would then report as a violation of its property although only wall-clock time ran out
            raise _WallClockExceeded()
        old = signal.signal(signal.SIGALRM, _too_slow)
        signal.setitimer(signal.ITIMER_REAL, self.request_wall_s)
        try:
            return self._call_inner(environ, run_wsgi_app)
        except _WallClockExceeded:
            raise HarnessError(f"request exceeded {self.request_wall_s}s of wall time: "
                               f"{environ.get('REQUEST_METHOD')} {environ.get('PATH_INFO')}?"
                               f"{environ.get('QUERY_STRING')}") from None
        finally:
            signal.setitimer(signal.ITIMER_REAL, 0)
            signal.signal(signal.SIGALRM, old)

    def _call_inner(self, environ, run_wsgi_app):
        budget = self.step_budget
        if budget:
            from . import stepbudget
            try:
                with stepbudget.limit(budget):
                    app_iter, status, headers = run_wsgi_app(self.app.wsgi_app, environ, buffered=True)
            except SimHang as hang:
                # the request was aborted by the deterministic step budget; discard its DB session
                try:
                    from dashlive.server.models.db import db
                    with self.app.app_context():
                        db.session.remove()
                except Exception:  # noqa: BLE001
                    pass
                return 599, [], b"", hang
        else:
            app_iter, status, headers = run_wsgi_app(self.app.wsgi_app, environ, buffered=True)
        try:
            data = b"".join(app_iter)
        finally:
            close = getattr(app_iter, "close", None)
            if close:
                close()
        code = int(status.split(" ", 1)[0])
        return code, [(str(k), str(v)) for k, v in headers], data, self._exc_by_thread.pop(threading.get_ident(), None)

    def record(self, actor: str, method: str, url: str, status: int, body: bytes, fault: str | None) -> None:
        self.seq += 1
        parts = urllib.parse.urlsplit(url)
        target = parts.path + ("?" + parts.query if parts.query else "")
        self.trace.append(TraceRecord(
            seq=self.seq, t_us=simclock.CLOCK.us, actor=actor, method=method, target=target,
            status=status, body_sha=hashlib.sha1(body.replace(_ROOT_BYTES, b"<scratch>")).hexdigest()[:10],
            fault=fault))

    def note(self, actor: str, what: str) -> None:
        """Non-request event in the trace (restart, clock jump, ...)."""
        self.seq += 1
        self.trace.append(TraceRecord(
            seq=self.seq, t_us=simclock.CLOCK.us, actor=actor, method="EVENT", target=what,
            status=0, body_sha="-"))

    # ------------------------------------------------------------------ durable-state inspection
    EXCLUDE_COLUMNS = {
        "Token": None,            # whole table excluded (CSRF/JWT bookkeeping, not user-visible state)
        "Blob": {"created"},
        "User": {"last_login"},
    }

    def table_rows(self) -> dict[str, list[tuple]]:
        """Committed content of every table, read with a private sqlite3 connection."""
        out: dict[str, list[tuple]] = {}
        con = sqlite3.connect(f"file:{self.db_file}?mode=ro", uri=True)
        try:
            names = [r[0] for r in con.execute(
                "select name from sqlite_master where type='table' order by name")]
            for tname in names:
                if tname.startswith("sqlite_") or tname == "alembic_version":
                    continue
                excl = self.EXCLUDE_COLUMNS.get(tname, set())
                if excl is None:
                    continue
                cols = [r[1] for r in con.execute(f'pragma table_info("{tname}")')]
                keep = [c for c in cols if c not in excl]
                sel = ", ".join(f'"{c}"' for c in keep)
                rows = con.execute(f'select {sel} from "{tname}" order by 1').fetchall()
                out[tname] = [tuple(keep)] + [tuple(r) for r in rows]
        finally:
            con.close()
        return out

    def blob_listing(self) -> dict[str, tuple[int, str]]:
        out: dict[str, tuple[int, str]] = {}
        if not self.blob_dir.exists():
            return out
        for p in sorted(self.blob_dir.rglob("*")):
            if p.is_file():
                data = p.read_bytes()
                out[str(p.relative_to(self.blob_dir))] = (len(data), hashlib.sha1(data).hexdigest()[:12])
        return out

    def state(self) -> dict:
        return {"tables": self.table_rows(), "blobs": self.blob_listing()}


def exc_site(exc: BaseException | None) -> str:
    """'<ExceptionType>@<repo-relative file>:<function>' of the innermost frame that lies inside the repo."""
    if exc is None:
        return "none"
    import traceback
    site = "?"
    repo = str(boot.REPO)
    for fs in traceback.extract_tb(exc.__traceback__):
        if fs.filename.startswith(repo):
            site = f"{fs.filename[len(repo) + 1:]}:{fs.name}"
    extra = ""
    if type(exc).__name__ == "IntegrityError":
        # which constraint: one site can break several (e.g. a duplicate name vs. a duplicate child row)
        import re
        m = re.search(r"constraint failed: ([A-Za-z_.\" ,]+?)(?:\n|$|\[)", str(exc))
        if m:
            extra = "(" + m.group(1).strip().replace('"', "").replace(" ", "") + ")"
    return f"{type(exc).__name__}@{site}{extra}"


def diff_state(before: dict, after: dict) -> list[str]:
    """Human-readable list of differences between two World.state() values."""
    diffs: list[str] = []
    tb, ta = before["tables"], after["tables"]
    for tname in sorted(set(tb) | set(ta)):
        rb, ra = tb.get(tname, []), ta.get(tname, [])
        if rb == ra:
            continue
        sb, sa = set(rb[1:]), set(ra[1:])
        for row in sorted(sb - sa, key=repr):
            diffs.append(f"table {tname}: -{_short(row)}")
        for row in sorted(sa - sb, key=repr):
            diffs.append(f"table {tname}: +{_short(row)}")
    bb, ba = before["blobs"], after["blobs"]
    for path in sorted(set(bb) | set(ba)):
        if bb.get(path) != ba.get(path):
            diffs.append(f"blob {path}: {bb.get(path)} -> {ba.get(path)}")
    return diffs


def _short(row: tuple) -> str:
    txt = repr(row)
    return txt if len(txt) < 200 else txt[:197] + "..."


def rng_from(*parts: Any) -> random.Random:
    h = hashlib.blake2b(":".join(str(p) for p in parts).encode(), digest_size=8).digest()
    return random.Random(int.from_bytes(h, "big"))
