"""Second stage: pre-emption inside requests.

Deployments serve requests on threads.  Here every request of a *burst* runs on its own real thread, but only
one thread moves at a time: a thread parks at every seam (each SQL statement, each commit/rollback, each blob
file operation) and the seeded scheduler - not the operating system - decides who continues.  One seed is one
interleaving; the chosen sequence of (request, seam) pairs is the schedule recorded in the replay file.

SQLite's busy handling would block inside C code while holding the baton.  Connections are therefore opened with
timeout 0 through a small sqlite3.Connection subclass: "database is locked" parks the thread as *blocked* and the
statement is retried once another thread has moved, which is what the busy timeout amounts to in production.
When every live thread is blocked the wait is over (a real server would hit its busy timeout): the error is
delivered to the statement that has waited longest.

Outside a burst every hook is a no-op: the atomic-request checks are unaffected.
"""
from __future__ import annotations

import sqlite3
import threading
from typing import Callable

_LOCAL = threading.local()
ACTIVE: "Burst | None" = None


def point(label: str, blocked: bool = False) -> bool:
    """Seam.  Returns False when a blocked wait must give up (deadlock)."""
    burst = ACTIVE
    tid = getattr(_LOCAL, "tid", None)
    if burst is None or tid is None:
        return not blocked
    ok = burst.park(tid, label, blocked)
    if tid in burst.crashed:
        raise ProcessCrash(label)
    return ok


class ProcessCrash(BaseException):
    """The server process dies at this seam (not an Exception: no handler of the application may catch it)."""


class Burst:
    """Runs callables on baton-passing threads under a seeded schedule."""

    def __init__(self, rng, max_steps: int = 4000, forced: list[int] | None = None,
                 crash_at: int | None = None, strategy: str | None = None) -> None:
        self.rng = rng
        # "uniform": every step picks uniformly among the runnable threads (many switches; a thread practically
        # never stalls while another runs a whole request).  "stall": threads run in a seeded priority order until
        # they block or finish, except that the running thread is demoted at one or two seeded steps - preferably
        # right after it has committed, rolled back, taken a lock or touched a file - so that "A stops between its
        # commit and its next step while B runs from start to end" has a fair chance.  Chosen by the seed.
        if strategy is None:
            strategy = "stall" if rng.random() < 0.5 else "uniform"
        self.strategy = strategy
        self.priority: list[int] = []
        self.demote_budget = rng.choice([1, 1, 2])
        self.demote_p = rng.choice([0.0, 0.05, 0.15])
        self.hot_target = rng.randrange(10)        # the running thread is demoted at its n-th hot point
        self.hot_seen = 0
        self.crash_at = crash_at           # the thread released at this step (1-based) dies at its seam instead
        self.crashed: set[int] = set()
        self.crash_label: str | None = None
        self.max_steps = max_steps
        self.forced = list(forced) if forced is not None else None    # replay / shrinking: thread index per step
        self.cv = threading.Condition()
        self.state: dict[int, str] = {}
        self.label: dict[int, str] = {}
        self.blocked_since: dict[int, int] = {}
        self.current: int | None = None
        self.give_up: set[int] = set()
        self.schedule: list[tuple[int, str]] = []
        self.results: dict[int, object] = {}
        self.errors: dict[int, BaseException] = {}
        self.steps = 0
        self.progress = 0          # counts releases of non-blocked threads

    # ------------------------------------------------------------------ thread side
    def park(self, tid: int, label: str, blocked: bool) -> bool:
        with self.cv:
            self.state[tid] = "blocked" if blocked else "parked"
            self.label[tid] = label
            if blocked:
                self.blocked_since.setdefault(tid, self.progress)
            else:
                self.blocked_since.pop(tid, None)
            self.current = None
            self.cv.notify_all()
            while self.current != tid:
                self.cv.wait()
            self.state[tid] = "running"
            if tid in self.give_up:
                self.give_up.discard(tid)
                self.blocked_since.pop(tid, None)
                return False
            return True

    def _thread(self, tid: int, fn: Callable[[], object]) -> None:
        _LOCAL.tid = tid
        try:
            self.park(tid, "start", False)
            self.results[tid] = fn()
        except BaseException as err:  # noqa: BLE001 - reported by the caller
            self.errors[tid] = err
        finally:
            _LOCAL.tid = None
            with self.cv:
                self.state[tid] = "done"
                self.current = None
                self.cv.notify_all()

    def _pick_stall(self, cands: list[int]) -> int:
        if not self.priority:
            self.priority = sorted(self.state)
            self.rng.shuffle(self.priority)
        top = next(t for t in self.priority if t in cands)
        if len(cands) > 1 and self.demote_budget > 0 and self.label.get(top) != "start":
            last = self.schedule[-1] if self.schedule else None
            # the label a thread is parked at names its *next* step: what it has just done is the label it was
            # released from last time
            done = last[1] if last and last[0] == top else ""
            hot = done in ("commit", "rollback", "lock:acquire") or done.startswith("file:")
            hit = False
            if hot:
                hit = self.hot_seen == self.hot_target
                self.hot_seen += 1
            elif self.demote_p:
                hit = self.rng.random() < self.demote_p
            if hit:
                self.demote_budget -= 1
                self.priority.remove(top)
                self.priority.append(top)
                top = next(t for t in self.priority if t in cands)
        return top

    # ------------------------------------------------------------------ scheduler side
    def run(self, fns: list[Callable[[], object]]) -> None:
        global ACTIVE
        if ACTIVE is not None:
            raise RuntimeError("nested burst")
        threads = []
        ACTIVE = self
        try:
            for tid, fn in enumerate(fns):
                self.state[tid] = "new"
                th = threading.Thread(target=self._thread, args=(tid, fn), daemon=True, name=f"burst-{tid}")
                threads.append(th)
                th.start()
            while True:
                with self.cv:
                    while self.current is not None or any(s in ("new", "running") for s in self.state.values()):
                        if not self.cv.wait(timeout=60):
                            raise RuntimeError(f"burst stalled: {self.state} {self.label}")
                    live = [t for t, s in self.state.items() if s != "done"]
                    if not live:
                        break
                    parked = sorted(t for t in live if self.state[t] == "parked")
                    # a blocked thread may retry once somebody else has moved since it blocked
                    retry = sorted(t for t in live if self.state[t] == "blocked"
                                   and self.blocked_since.get(t, 0) < self.progress)
                    cands = parked + retry
                    if not cands:
                        # every live thread waits for a lock: the longest waiter gets the error
                        victim = min(live, key=lambda t: (self.blocked_since.get(t, 0), t))
                        self.give_up.add(victim)
                        cands = [victim]
                    self.steps += 1
                    if self.steps > self.max_steps:
                        raise RuntimeError("burst exceeded its step budget")
                    if self.forced is not None and self.forced:
                        want = self.forced.pop(0)
                        tid = want if want in cands else cands[0]
                    elif self.forced is not None:
                        tid = cands[0]
                    elif self.strategy == "stall":
                        tid = self._pick_stall(cands)
                    else:
                        tid = cands[self.rng.randrange(len(cands))] if len(cands) > 1 else cands[0]
                    if self.state[tid] == "parked":
                        self.progress += 1
                    else:
                        self.blocked_since[tid] = self.progress
                    self.schedule.append((tid, self.label.get(tid, "?")))
                    if self.crash_at is not None and self.steps == self.crash_at and self.label.get(tid) != "start":
                        self.crashed.add(tid)
                        self.crash_label = self.label.get(tid)
                    self.current = tid
                    self.cv.notify_all()
            for th in threads:
                th.join(timeout=10)
        finally:
            ACTIVE = None


# ------------------------------------------------------------------------------------------ sqlite seam
class _Cursor(sqlite3.Cursor):
    def execute(self, sql, *args):  # noqa: ANN001
        point("sql:" + str(sql).split(None, 3)[0].upper() + ":" + _table_of(str(sql)))
        while True:
            try:
                return super().execute(sql, *args)
            except sqlite3.OperationalError as err:
                if "locked" not in str(err) or not point("lock-wait", blocked=True):
                    raise

    def executemany(self, sql, *args):  # noqa: ANN001
        point("sql:MANY:" + _table_of(str(sql)))
        while True:
            try:
                return super().executemany(sql, *args)
            except sqlite3.OperationalError as err:
                if "locked" not in str(err) or not point("lock-wait", blocked=True):
                    raise


class Connection(sqlite3.Connection):
    def cursor(self, factory=_Cursor):  # noqa: ANN001
        return super().cursor(factory)

    def commit(self):
        point("commit")
        while True:
            try:
                return super().commit()
            except sqlite3.OperationalError as err:
                if "locked" not in str(err) or not point("lock-wait", blocked=True):
                    raise

    def rollback(self):
        point("rollback")
        return super().rollback()


def _table_of(sql: str) -> str:
    toks = sql.replace('"', " ").replace("(", " ").split()
    up = [t.upper() for t in toks]
    for kw in ("FROM", "INTO", "UPDATE", "TABLE"):
        if kw in up:
            i = up.index(kw)
            if i + 1 < len(toks):
                return toks[i + 1]
    return "-"


ENGINE_OPTIONS = {"connect_args": {"factory": Connection, "timeout": 0, "check_same_thread": False}}


# ------------------------------------------------------------------------------------------ file seams
def install_file_seams() -> None:
    """Park before the blob store is touched (upload saved, file removed): the operations between two SQL
    statements are otherwise one step.  Idempotent; a no-op outside a burst."""
    import pathlib
    from werkzeug.datastructures import FileStorage
    if getattr(FileStorage.save, "_dsim_seam", False):
        return
    orig_save = FileStorage.save
    orig_unlink = pathlib.Path.unlink

    def save(self, dst, *args, **kw):  # noqa: ANN001
        point("file:save")
        return orig_save(self, dst, *args, **kw)

    def unlink(self, *args, **kw):  # noqa: ANN001
        point("file:unlink")
        return orig_unlink(self, *args, **kw)

    orig_replace = pathlib.Path.replace

    def replace(self, target):  # noqa: ANN001
        point("file:replace")
        return orig_replace(self, target)

    save._dsim_seam = True
    FileStorage.save = save
    pathlib.Path.unlink = unlink
    pathlib.Path.replace = replace


install_file_seams()


# ------------------------------------------------------------------------------------------ lock seam
class CoopLock:
    """threading.Lock with a seam: waiting for it parks the thread as blocked (the scheduler picks who runs next and
    retries the acquisition once somebody else has moved).  When every live thread is blocked the longest waiter
    gives up with an error - what a lock timeout amounts to."""

    def __init__(self) -> None:
        self._lock = threading.Lock()

    def acquire(self, blocking: bool = True, timeout: float = -1) -> bool:
        point("lock:acquire")
        while not self._lock.acquire(False):
            if not blocking:
                return False
            if not point("applock-wait", blocked=True):
                raise RuntimeError("deadlock: gave up waiting for a lock")
        return True

    def release(self) -> None:
        self._lock.release()

    def locked(self) -> bool:
        return self._lock.locked()

    def __enter__(self) -> bool:
        return self.acquire()

    def __exit__(self, *exc) -> None:  # noqa: ANN002
        self.release()


LOCK_SEAMS = [("dashlive.server.models.stream", "upload_lock")]


def install_lock_seams() -> list[str]:
    """Replace the module-level locks of the application (listed above; absent ones are skipped)."""
    import importlib
    done = []
    for modname, attr in LOCK_SEAMS:
        try:
            mod = importlib.import_module(modname)
        except Exception:  # noqa: BLE001
            continue
        cur = getattr(mod, attr, None)
        if cur is not None and not isinstance(cur, CoopLock):
            setattr(mod, attr, CoopLock())
            done.append(f"{modname}.{attr}")
    return done
