"""Deterministic per-request step budget (C16 'run without bound').

Counts backward-jump events (loop iterations) with ``sys.monitoring`` and raises SimHang from inside the
interpreted code when the budget is exhausted.  Deterministic: it counts executed bytecode jumps, never
wall-clock time.
"""
from __future__ import annotations

import contextlib
import sys

from .world import SimHang  # noqa: F401  (re-exported)

TOOL = 3
_state = {"left": 0, "active": False, "used_max": 0, "registered": False}


def _on_jump(code, offset, dest):
    if dest < offset:
        _state["left"] -= 1
        if _state["left"] < 0 and _state["active"]:
            _state["active"] = False
            from .world import SimHang as _SH
            raise _SH(f"step budget exhausted in {code.co_filename}:{code.co_name}")
    return None


def _ensure():
    if _state["registered"]:
        return
    mon = sys.monitoring
    mon.use_tool_id(TOOL, "dsim-stepbudget")
    mon.register_callback(TOOL, mon.events.JUMP, _on_jump)
    _state["registered"] = True


@contextlib.contextmanager
def limit(budget: int):
    _ensure()
    mon = sys.monitoring
    _state["left"] = budget
    _state["active"] = True
    mon.set_events(TOOL, mon.events.JUMP)
    try:
        yield
    finally:
        mon.set_events(TOOL, 0)
        used = budget - _state["left"]
        if used > _state["used_max"]:
            _state["used_max"] = used
        _state["active"] = False


def used_max() -> int:
    return _state["used_max"]
