"""Response oracles for init and media segments (C01, C02, C03, C10), judged from the manifest text, the
response bytes and the oracle's own scan of the stored files.  Nothing here calls into dashlive.
"""
from __future__ import annotations

import urllib.parse
from fractions import Fraction
from pathlib import Path

from . import isobmff
from . import mpd as mpdlib

SYSTEM_IDS = {
    "playready": bytes.fromhex("9a04f07998404286ab92e65be0885f95"),
    "clearkey": bytes.fromhex("1077efecc0b24d02ace33c1e52e2fb4b"),
    "marlin": bytes.fromhex("5e629af538da4063897797ffbd9902d4"),
}
ALL_LOCATIONS = {"cenc", "moov", "pro"}
MOOV_SYSTEMS = {"playready", "clearkey"}


def parse_drm(value: str | None) -> dict[str, set[str]]:
    """Independent reading of the documented `drm=` syntax -> {system: locations}."""
    if not value:
        return {}
    value = value.lower()
    if value.startswith("none"):
        return {}
    out: dict[str, set[str]] = {}
    if value.startswith("all"):
        locs = set(value.split("-")[1:]) or set(ALL_LOCATIONS)
        return {s: set(locs) for s in SYSTEM_IDS}
    for item in value.split(","):
        parts = item.split("-")
        out[parts[0]] = set(parts[1:]) or set(ALL_LOCATIONS)
    return out


def url_parts(url: str) -> dict:
    """Decompose a media URL: mode, stream (or mps + period pk), representation id, kind, query."""
    sp = urllib.parse.urlsplit(url)
    segs = [s for s in sp.path.split("/") if s]
    q = dict(urllib.parse.parse_qsl(sp.query, keep_blank_values=True))
    info = {"q": q, "path": sp.path}
    if segs and segs[0] == "dash" and len(segs) >= 4:
        info.update(route="dash", mode=segs[1], stream=segs[2], rep=segs[3].split(".")[0])
    elif segs and segs[0] == "mps" and len(segs) >= 5:
        info.update(route="mps", mode=segs[1], mps=segs[2], ppk=int(segs[3]) if segs[3].isdigit() else None,
                    rep=segs[4])
    return info


class StoredIndex:
    """Locates and scans stored files below the blob directory (independent scan, memoised)."""

    def __init__(self, blob_dir: Path) -> None:
        self.blob_dir = Path(blob_dir)

    def file_for(self, stream: str, rep_id: str) -> isobmff.StoredFile | None:
        d = self.blob_dir / stream
        cand = d / f"{rep_id}.mp4"
        if not cand.exists():
            # representation ids are lower-cased file stems; blob names may carry a suffix after edits
            matches = sorted(p for p in d.glob("*.mp4") if p.stem.lower() == rep_id.lower())
            if not matches:
                matches = sorted(p for p in d.glob(f"{rep_id}*.mp4"))
            if not matches:
                return None
            cand = matches[-1]
        return isobmff.stored_file(str(cand))


class MediaOracle:
    """Observer for Player actors.  ``rules`` selects which property's rules are enforced."""

    def __init__(self, sim, world, rules: set[str], timing_refs: dict[str, str] | None = None,
                 judge=None) -> None:
        self.sim = sim
        self.world = world
        self.rules = rules
        self.index = StoredIndex(world.blob_dir)
        self.timing_refs = timing_refs or {}
        self.judge = judge          # optional callable(actor) -> bool: whether this actor's traffic is judged
        self.mps_streams: dict[int, str] = {}

    # ------------------------------------------------------------------ helpers
    def stored(self, info: dict) -> isobmff.StoredFile | None:
        stream = info.get("stream")
        if info.get("route") == "mps":
            stream = self.mps_streams.get(info.get("ppk"))
        if not stream:
            return None
        return self.index.file_for(stream, info["rep"])

    def ref_duration(self, stream: str, ts: int) -> Fraction | None:
        """Duration of the stream's timing reference expressed in ``ts`` ticks (exact)."""
        name = self.timing_refs.get(stream)
        if not name:
            return None
        sf = self.index.file_for(stream, name)
        if sf is None:
            return None
        return Fraction(sf.total_duration * ts, sf.timescale)

    def regime(self, ref) -> list[str]:
        """Regime tags from manifest-visible quantities (used in violation subjects)."""
        tags = []
        doc = ref.doc
        m = doc.mpd if doc is not None else None
        if m is None or m.type != "dynamic":
            return tags
        q = url_parts(doc.url)["q"]
        tm = ref.rep.template
        dur_ticks = None
        if tm is not None:
            if tm.timeline:
                dur_ticks = max(e.d for e in tm.timeline)
            elif tm.duration:
                dur_ticks = tm.duration
        if dur_ticks and m.ast_us is not None:
            d = Fraction(dur_ticks, tm.timescale)
            tsbd = m.tsbd or Fraction(0)
            elapsed = Fraction(doc.fetched_us - m.ast_us, 1_000_000)
            if elapsed < tsbd + 2 * d or (m.tsbd is not None and "depth" in q and q["depth"].isdigit()
                                          and int(q["depth"]) > m.tsbd):
                tags.append("young-stream")
            try:
                leeway = Fraction(int(q.get("leeway", "16")))
            except ValueError:
                leeway = Fraction(16)
            if leeway < d:
                tags.append("leeway<d")
            elif leeway < 2 * d:
                tags.append("leeway<2d")
        return tags

    # ------------------------------------------------------------------ observer
    def on_manifest(self, actor, doc, prev) -> None:
        if "C02" not in self.rules or (self.judge is not None and not self.judge(actor)):
            return
        if doc.mpd is None or doc.mpd.type != "dynamic":
            return
        sim = self.sim
        for period in doc.mpd.periods:
            for aset in period.asets:
                for rep in aset.reps:
                    tm = rep.template
                    if tm is None or not tm.timeline_raw:
                        continue
                    sim.check("c02-timeline-gapless")
                    cur = None
                    for (t, d, r) in tm.timeline_raw:
                        if t is not None and cur is not None and t != cur:
                            sim.violate("timeline-gap", aset.content_type or "?",
                                        f"S@t={t} but previous entry ends at {cur}; {doc.url}")
                            break
                        if t is not None:
                            cur = t
                        cur = (cur or 0) + d * (r + 1)
        # continuity with the previous manifest of the same client and URL (same time base)
        if prev is None or prev.mpd is None or prev.url != doc.url or prev.mpd.ast_us != doc.mpd.ast_us:
            return
        old = {}
        for period in prev.mpd.periods:
            for aset in period.asets:
                for rep in aset.reps:
                    if rep.template is not None and rep.template.timeline:
                        old[(period.id, aset.id, rep.id)] = rep.template.timeline
        for period in doc.mpd.periods:
            for aset in period.asets:
                for rep in aset.reps:
                    tl = rep.template.timeline if rep.template is not None else None
                    o = old.get((period.id, aset.id, rep.id))
                    if not tl or not o:
                        continue
                    lo, hi = o[0].t, o[-1].t + o[-1].d
                    starts_old = {e.t for e in o}
                    sim.check("c02-timeline-continuity")
                    for e in tl:
                        if lo <= e.t < hi and e.t not in starts_old:
                            sim.violate("timeline-discontinuity", aset.content_type or "?",
                                        f"{rep.id}: entry t={e.t} of the refreshed manifest falls inside the range "
                                        f"[{lo},{hi}) listed before but is not one of its segment starts; {doc.url}")
                            break

    def on_segment(self, actor, ref, resp) -> None:
        if self.judge is not None and not self.judge(actor):
            return
        sim = self.sim
        info = url_parts(ref.url)
        edge = "interior"
        if ref.index is not None and ref.count:
            if ref.index == 0:
                edge = "trailing"
            elif ref.index == 1:
                edge = "trailing+1"      # also when the list has only two entries
            elif ref.index == ref.count - 1:
                edge = "leading"
        tags = self.regime(ref)
        ctype = ref.aset.content_type or "?"
        base_subject = "/".join([ref.kind, ctype, edge] + (["+".join(tags)] if tags else []))
        from .. import clock as simclock
        same_instant = ref.doc is not None and simclock.CLOCK.us == ref.doc.fetched_us
        if "C01" in self.rules and not same_instant:
            sim.world.probe("c01.clock-moved-since-manifest")
        if "C01" in self.rules and same_instant:
            sim.check(f"advertised-{ref.kind}")
            if resp.status != 200:
                sim.violate(f"{ref.kind}-unavailable", base_subject,
                            f"{resp.status} for advertised {ref.kind} segment {ref.url} "
                            f"(manifest {ref.doc.url} fetched at {ref.doc.fetched_us}, index {ref.index}/{ref.count})")
        if resp.status != 200:
            return
        if ref.kind == "init":
            if "C10" in self.rules:
                self.check_init(ref, resp, info)
            return
        try:
            seg = isobmff.media_segment(resp.body)
        except (isobmff.BoxError, Exception) as err:  # noqa: BLE001
            if "C03" in self.rules:
                sim.violate("malformed-segment", f"{ctype}", f"{type(err).__name__}: {err}; {ref.url}")
            return
        sf = self.stored(info)
        if "C03" in self.rules:
            self.check_c03(ref, seg, sf, info, ctype)
        if "C02" in self.rules:
            self.check_c02(ref, seg, sf, info, ctype, tags)

    # ------------------------------------------------------------------ C03
    def check_c03(self, ref, seg: isobmff.MediaSegment, sf, info, ctype: str) -> None:
        sim = self.sim
        q = info["q"]
        enc = "enc" if (sf is not None and sf.kid is not None) else "clear"
        subj = f"{ctype}/{enc}"
        sim.check("c03-segment")
        # payload identity
        import hashlib
        sha = hashlib.sha1(seg.payload).hexdigest()
        if sf is not None:
            sim.check("c03-payload")
            if sha not in sf.by_sha:
                if not q.get("vcorrupt"):
                    sim.violate("payload-not-stored", subj,
                                f"mdat payload ({len(seg.payload)} bytes) matches no stored segment of {sf.name}; {ref.url}")
        # trun data offset
        sim.check("c03-data-offset")
        ds = seg.data_start()
        first_payload = seg.mdat.start + seg.mdat.header
        if ds is None:
            # no data_offset: data starts right after the moof (only legal when mdat follows immediately)
            if seg.moof.end + seg.mdat.header != first_payload:
                sim.violate("trun-no-data-offset", subj, f"trun without data_offset but mdat not adjacent; {ref.url}")
        elif ds != first_payload:
            sim.violate("trun-data-offset", subj,
                        f"trun data offset designates byte {ds}, first payload byte is {first_payload} "
                        f"(moof at {seg.moof.start}, base_data_offset={seg.tfhd.base_data_offset}, "
                        f"data_offset={seg.trun.data_offset}); {ref.url}")
        sim.check("c03-sample-sizes")
        ts = seg.total_size()
        if ts is None:
            sim.violate("sample-size-unknown", subj, f"neither trun sizes nor tfhd default size; {ref.url}")
        elif ts != len(seg.payload):
            sim.violate("sample-sizes-sum", subj,
                        f"sample sizes sum to {ts}, payload is {len(seg.payload)} bytes; {ref.url}")
        if seg.has_sidx:
            sim.world.probe("c03.sidx-kept")
        # sample encryption boxes
        if sf is not None and sf.kid is not None:
            sn = isobmff.senc(seg.traf, sf.iv_size)
            if sn is None:
                sim.violate("senc-missing", subj, f"encrypted segment without senc; {ref.url}")
                return
            sim.check("c03-senc")
            if sn.piff:
                sim.world.probe("c03.piff-senc-only")
            if not sn.entries_ok:
                # stored fixtures carry senc boxes whose flags announce subsample data they do not contain;
                # the box is passed through untouched, so this is recorded, not judged
                sim.world.probe("c03.senc-flags-vs-content")
            if sn.sample_count != seg.trun.sample_count:
                sim.violate("senc-sample-count", subj,
                            f"senc lists {sn.sample_count} samples, trun {seg.trun.sample_count}; {ref.url}")
            # every senc-like box (senc and PIFF uuid) must agree with trun
            for u in seg.traf.children:
                if u.type == b"uuid" and u.usertype == isobmff.PIFF_SENC_UUID:
                    sim.world.probe("c03.piff-box")
            offs = isobmff.saio_offsets(seg.traf)
            if offs is not None:
                sim.check("c03-saio")
                base = seg.moof.start if seg.tfhd.base_data_offset is None else seg.tfhd.base_data_offset
                real_senc = seg.traf.find(b"senc")
                target = None
                if real_senc is not None:
                    target = isobmff.senc(seg.traf, sf.iv_size).first_entry_offset if not sn.piff else \
                        isobmff.full(real_senc)[2] + 4
                if len(offs) != 1:
                    sim.violate("saio-count", subj, f"saio has {len(offs)} offsets; {ref.url}")
                elif target is not None and base + offs[0] != target:
                    if "saio" in (q.get("bugs") or "").split(","):
                        sim.world.probe("c03.saio-bug-waived")
                    else:
                        sim.violate("saio-offset", subj,
                                    f"saio offset {offs[0]} (+base {base}) designates {base + offs[0]}, first senc "
                                    f"sample entry is at {target}; {ref.url}")
            n = isobmff.saiz_count(seg.traf)
            if n is not None and n != seg.trun.sample_count:
                sim.violate("saiz-sample-count", subj, f"saiz {n} vs trun {seg.trun.sample_count}; {ref.url}")

    # ------------------------------------------------------------------ C02
    def check_c02(self, ref, seg: isobmff.MediaSegment, sf, info, ctype: str, tags: list[str]) -> None:
        sim = self.sim
        tm = ref.rep.template
        if seg.tfdt is None:
            sim.violate("tfdt-missing", ctype, f"served segment without tfdt; {ref.url}")
            return
        tfdt = seg.tfdt[1]
        stream = info.get("stream") or self.mps_streams.get(info.get("ppk"))
        ref_dur = self.ref_duration(stream, tm.timescale) if stream else None
        drift = None
        loops = None
        if sf is not None and ref_dur is not None:
            drift = ref_dur - sf.total_duration
            loops = int(Fraction(tfdt) / ref_dur) if ref_dur > 0 else 0
        cands = []
        if sf is not None:
            import hashlib
            cands = sf.by_sha.get(hashlib.sha1(seg.payload).hexdigest(), [])
        stored_seg = cands[0] if cands else None
        is_last = any(c.index == len(sf.segments) for c in cands) if sf is not None else False
        subj_tags = []
        if sf is not None and sf.segments and sf.segments[0].decode_time != 0:
            subj_tags.append("first-decode-time!=0")
        if is_last and drift:
            subj_tags.append("loop-last+drift")
        if stream in getattr(self, "alt_refs", ()):
            subj_tags.append("alt-ref")      # regime: the stream's timing reference is not its usual (video) file
        subj = "/".join([ref.kind, ctype] + (["+".join(subj_tags)] if subj_tags else []))
        if ref.kind == "time":
            sim.check("c02-time-tfdt")
            if tfdt != ref.time:
                sim.violate("time-tfdt", subj, f"$Time$={ref.time} but baseMediaDecodeTime={tfdt}; {ref.url}")
            sim.check("c02-time-duration")
            td = seg.total_duration(sf.default_sample_duration if sf is not None else None)
            if td is None:
                sim.violate("duration-unknown", subj, f"no sample durations; {ref.url}")
            elif td != ref.duration:
                sim.violate("time-duration", subj,
                            f"S@d={ref.duration} but samples last {td} ticks (t={ref.time}, drift={drift}); {ref.url}")
        elif ref.kind == "number":
            sim.check("c02-number-sequence")
            if seg.sequence != ref.number:
                sim.violate("number-sequence", subj,
                            f"$Number$={ref.number} but mfhd.sequence_number={seg.sequence}; {ref.url}")
            if tm.duration:
                sim.check("c02-number-time")
                expect = (ref.number - tm.start_number) * tm.duration
                longest = max([tm.duration] + ([s_.duration for s_ in sf.segments] if sf is not None else []))
                tol = Fraction(longest, 2)
                if drift is not None:
                    tol += abs(drift) * ((loops or 0) + 1)
                if abs(tfdt - expect) > tol:
                    sim.violate("number-time", subj,
                                f"$Number$={ref.number}: baseMediaDecodeTime={tfdt}, expected {expect} +- {float(tol):.1f} "
                                f"(duration={tm.duration}, drift={drift}, loops={loops}); {ref.url}")
        # alignment of the source position with the presentation time
        if stored_seg is not None and ref_dur is not None and ref_dur > 0:
            sim.check("c02-alignment")
            first = sf.segments[0].decode_time
            pres = Fraction(tfdt) - (Fraction(tfdt) // ref_dur) * ref_dur
            maxdur = max(s.duration for s in sf.segments)
            tol = Fraction(maxdur, 2) + abs(drift or 0) + 1
            best = None
            for cand in cands:
                pos = Fraction(cand.decode_time - first)
                dd = abs(pos - pres)
                dd = min(dd, ref_dur - dd) if dd <= ref_dur else dd
                if best is None or dd < best[0]:
                    best = (dd, cand, pos)
            diff, stored_seg, pos_src = best
            if loops:
                sim.world.probe("c02.looped")
            if diff > tol:
                sim.violate("alignment", subj,
                            f"delivered stored segment #{stored_seg.index} (source position {pos_src}) for presentation "
                            f"time {tfdt} = {float(pres):.1f} mod {float(ref_dur):.1f}; tolerance {float(tol):.1f}; {ref.url}")

    # ------------------------------------------------------------------ C10
    def check_init(self, ref, resp, info) -> None:
        sim = self.sim
        sf = self.stored(info)
        if sf is None:
            return
        q = info["q"]
        mode = info.get("mode")
        enc = sf.kid is not None
        drm = parse_drm(q.get("drm"))
        ctype = ref.aset.content_type or "?"
        subj = f"{ctype}/{'enc' if enc else 'clear'}/{mode}/{info.get('route')}"
        sim.check("c10-init")
        try:
            got = isobmff.parse(resp.body)
        except isobmff.BoxError as err:
            sim.violate("init-malformed", subj, f"{err}; {ref.url}")
            return
        first_moof = next((b for b in sf.root.children if b.type == b"moof"), None)
        stored_init = sf.root.data[:first_moof.start if first_moof is not None else sf.size]
        want_root = isobmff.parse(stored_init)
        want = isobmff.flatten(want_root)
        have = isobmff.flatten(got)
        # expected pssh boxes
        expected_systems = []
        if enc:
            for system in sorted(drm):
                if system in MOOV_SYSTEMS and "moov" in drm[system]:
                    expected_systems.append(system)
        # remove permitted differences from both sides
        have_pssh = [(p, raw) for p, raw in have if p == "moov/pssh"]
        have_rest = [(p, raw) for p, raw in have if p != "moov/pssh"]
        want_pssh = [(p, raw) for p, raw in want if p == "moov/pssh"]
        want_rest = [(p, raw) for p, raw in want if p != "moov/pssh"]
        if mode == "live":
            want_rest = [(p, raw) for p, raw in want_rest if p != "moov/mvex/mehd"]
        # container headers carry only the type here (sizes legitimately change): compare leaf bytes and order
        if [p for p, _ in have_rest] != [p for p, _ in want_rest]:
            sim.violate("init-box-sequence", subj,
                        f"boxes {[p for p, _ in have_rest]} expected {[p for p, _ in want_rest]}; {ref.url}")
            return
        for (p, a), (_, b) in zip(have_rest, want_rest):
            if p.endswith("/"):
                continue
            if a != b:
                sim.violate("init-box-changed", subj + "/" + p, f"box {p} differs from the stored bytes; {ref.url}")
                return
        sim.check("c10-pssh")
        got_systems = []
        for _, raw in have_pssh[len(want_pssh):]:
            try:
                ps = isobmff.pssh(isobmff.parse(raw).children[0])
            except (isobmff.BoxError, Exception) as err:  # noqa: BLE001
                sim.violate("pssh-malformed", subj, f"{err}; {ref.url}")
                return
            name = next((n for n, sid in SYSTEM_IDS.items() if sid == ps.system_id), ps.system_id.hex())
            got_systems.append(name)
            if ps.kids and sf.kid not in ps.kids:
                sim.violate("pssh-kid", subj, f"pssh for {name} lists KIDs {[k.hex() for k in ps.kids]}, "
                                              f"track KID is {sf.kid.hex()}; {ref.url}")
        if have_pssh[:len(want_pssh)] != want_pssh:
            sim.violate("init-stored-pssh-changed", subj, f"stored pssh boxes altered; {ref.url}")
        if sorted(got_systems) != sorted(expected_systems):
            sim.violate("init-pssh-set", subj,
                        f"pssh boxes for {sorted(got_systems)}, expected {sorted(expected_systems)} "
                        f"(drm={q.get('drm')!r}); {ref.url}")
        # pssh must be the last children of moov
        moov = got.find(b"moov")
        if moov is not None and got_systems:
            tail = [c.name for c in moov.children][-len(got_systems):]
            if any(t != "pssh" for t in tail):
                sim.violate("pssh-not-appended", subj, f"moov children {[c.name for c in moov.children]}; {ref.url}")
        if got_systems:
            sim.world.probe("c10.pssh-added", len(got_systems))
        if mode == "live" and any(p == "moov/mvex/mehd" for p, _ in want):
            sim.world.probe("c10.mehd-removed")
