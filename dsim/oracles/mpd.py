"""Independent MPD reader for the oracles (lxml only; shares nothing with dashlive).

All arithmetic on Fraction / int.  xs:duration and xs:dateTime are parsed by this module's own lexical
readers, which also serve as validity checkers for C05.
"""
from __future__ import annotations

import re
import urllib.parse
from dataclasses import dataclass, field
from fractions import Fraction

from lxml import etree

NS = "urn:mpeg:dash:schema:mpd:2011"
PATCH_NS = "urn:mpeg:dash:schema:mpd-patch:2020"
Q = "{%s}" % NS

_DUR = re.compile(
    r"^(?P<sign>-)?P(?:(?P<y>\d+)Y)?(?:(?P<mo>\d+)M)?(?:(?P<d>\d+)D)?"
    r"(?:T(?:(?P<h>\d+)H)?(?:(?P<mi>\d+)M)?(?:(?P<s>\d+(?:\.\d+)?)S)?)?$")
_DT = re.compile(
    r"^(?P<Y>-?\d{4,})-(?P<M>\d{2})-(?P<D>\d{2})T(?P<h>\d{2}):(?P<m>\d{2}):(?P<s>\d{2})(?P<f>\.\d+)?"
    r"(?P<tz>Z|[+-]\d{2}:\d{2})?$")

_DAYS_BEFORE = [0, 31, 59, 90, 120, 151, 181, 212, 243, 273, 304, 334]


class LexicalError(ValueError):
    pass


def parse_duration(text: str) -> Fraction:
    """xs:duration -> seconds (years/months are rejected: a DASH MPD never needs them)."""
    if text is None:
        raise LexicalError("missing duration")
    m = _DUR.match(text.strip())
    if not m or text.strip() in ("P", "-P") or text.strip().endswith("T"):
        raise LexicalError(f"not an xs:duration: {text!r}")
    if m.group("y") or m.group("mo"):
        raise LexicalError(f"year/month in duration: {text!r}")
    total = Fraction(0)
    if m.group("d"):
        total += int(m.group("d")) * 86400
    if m.group("h"):
        total += int(m.group("h")) * 3600
    if m.group("mi"):
        total += int(m.group("mi")) * 60
    if m.group("s"):
        total += Fraction(m.group("s"))
    if m.group("sign"):
        total = -total
    return total


def _is_leap(y: int) -> bool:
    return y % 4 == 0 and (y % 100 != 0 or y % 400 == 0)


def _days_from_civil(y: int, m: int, d: int) -> int:
    y -= m <= 2
    era = (y if y >= 0 else y - 399) // 400
    yoe = y - era * 400
    doy = (153 * (m + (-3 if m > 2 else 9)) + 2) // 5 + d - 1
    doe = yoe * 365 + yoe // 4 - yoe // 100 + doy
    return era * 146097 + doe - 719468


def parse_datetime_us(text: str) -> int:
    """xs:dateTime -> microseconds since the Unix epoch (UTC assumed when no zone designator)."""
    if text is None:
        raise LexicalError("missing dateTime")
    m = _DT.match(text.strip())
    if not m:
        raise LexicalError(f"not an xs:dateTime: {text!r}")
    Y, M, D = int(m.group("Y")), int(m.group("M")), int(m.group("D"))
    h, mi, s = int(m.group("h")), int(m.group("m")), int(m.group("s"))
    if not (1 <= M <= 12):
        raise LexicalError(f"bad month: {text!r}")
    dim = [31, 29 if _is_leap(Y) else 28, 31, 30, 31, 30, 31, 31, 30, 31, 30, 31][M - 1]
    if not (1 <= D <= dim) or h > 24 or mi > 59 or s > 59 or (h == 24 and (mi or s)):
        raise LexicalError(f"bad field: {text!r}")
    frac = m.group("f")
    us = 0
    if frac:
        us = int(Fraction(frac) * 1_000_000)
    days = _days_from_civil(Y, M, D)
    total = ((days * 24 + h) * 60 + mi) * 60 + s
    tz = m.group("tz")
    if tz and tz != "Z":
        sign = 1 if tz[0] == "+" else -1
        total -= sign * (int(tz[1:3]) * 3600 + int(tz[4:6]) * 60)
    return total * 1_000_000 + us


@dataclass
class SEntry:
    t: int
    d: int


@dataclass
class SegTemplate:
    timescale: int = 1
    start_number: int = 1
    duration: int | None = None
    pto: int = 0
    initialization: str | None = None
    media: str | None = None
    timeline: list[SEntry] | None = None   # expanded
    timeline_raw: list[tuple[int | None, int, int]] | None = None   # (t, d, r)


@dataclass
class Rep:
    id: str
    bandwidth: int
    base_urls: list[str]
    template: SegTemplate | None
    seglist: dict | None
    attrib: dict
    elem: object = None


@dataclass
class ASet:
    id: str | None
    content_type: str | None
    reps: list[Rep]
    attrib: dict
    elem: object = None
    protections: list[dict] = field(default_factory=list)


@dataclass
class PeriodInfo:
    id: str | None
    start: Fraction | None
    duration: Fraction | None
    asets: list[ASet]
    elem: object = None


@dataclass
class Mpd:
    url: str
    root: object
    type: str
    attrib: dict
    ast_us: int | None
    publish_us: int | None
    tsbd: Fraction | None
    mup: Fraction | None
    mpd_duration: Fraction | None
    periods: list[PeriodInfo]
    locations: list[str]
    patch_locations: list[tuple[str, str | None]]
    utc_timing: list[tuple[str, str]]


def _text(e) -> str:
    return (e.text or "").strip()


def _parse_template(e, parent: SegTemplate | None) -> SegTemplate:
    st = SegTemplate()
    if parent is not None:
        st = SegTemplate(**{k: getattr(parent, k) for k in (
            "timescale", "start_number", "duration", "pto", "initialization", "media",
            "timeline", "timeline_raw")})
    a = e.attrib
    if "timescale" in a:
        st.timescale = int(a["timescale"])
    if "startNumber" in a:
        st.start_number = int(a["startNumber"])
    if "duration" in a:
        st.duration = int(a["duration"])
    if "presentationTimeOffset" in a:
        st.pto = int(a["presentationTimeOffset"])
    if "initialization" in a:
        st.initialization = a["initialization"]
    if "media" in a:
        st.media = a["media"]
    tl = e.find(Q + "SegmentTimeline")
    if tl is not None:
        raw: list[tuple[int | None, int, int]] = []
        expanded: list[SEntry] = []
        cur: int | None = None
        for s in tl.findall(Q + "S"):
            t = int(s.attrib["t"]) if "t" in s.attrib else None
            d = int(s.attrib["d"])
            r = int(s.attrib.get("r", "0"))
            raw.append((t, d, r))
            if t is not None:
                cur = t
            if cur is None:
                cur = 0
            for _ in range(r + 1):
                expanded.append(SEntry(cur, d))
                cur += d
        st.timeline = expanded
        st.timeline_raw = raw
    return st


def parse(body: bytes, url: str) -> Mpd:
    parser = etree.XMLParser(resolve_entities=False, no_network=True, huge_tree=False)
    root = etree.fromstring(body, parser)
    if root.tag != Q + "MPD":
        raise LexicalError(f"root element is {root.tag}")
    a = dict(root.attrib)
    ast = parse_datetime_us(a["availabilityStartTime"]) if "availabilityStartTime" in a else None
    pub = parse_datetime_us(a["publishTime"]) if "publishTime" in a else None
    tsbd = parse_duration(a["timeShiftBufferDepth"]) if "timeShiftBufferDepth" in a else None
    mup = parse_duration(a["minimumUpdatePeriod"]) if "minimumUpdatePeriod" in a else None
    mpdur = parse_duration(a["mediaPresentationDuration"]) if "mediaPresentationDuration" in a else None
    mpd_bases = [_text(b) for b in root.findall(Q + "BaseURL")]
    periods: list[PeriodInfo] = []
    for pe in root.findall(Q + "Period"):
        p_bases = [_text(b) for b in pe.findall(Q + "BaseURL")]
        p_tmpl = None
        te = pe.find(Q + "SegmentTemplate")
        if te is not None:
            p_tmpl = _parse_template(te, None)
        asets: list[ASet] = []
        for ae in pe.findall(Q + "AdaptationSet"):
            a_bases = [_text(b) for b in ae.findall(Q + "BaseURL")]
            a_tmpl = p_tmpl
            te = ae.find(Q + "SegmentTemplate")
            if te is not None:
                a_tmpl = _parse_template(te, p_tmpl)
            reps: list[Rep] = []
            for re_ in ae.findall(Q + "Representation"):
                r_bases = [_text(b) for b in re_.findall(Q + "BaseURL")]
                r_tmpl = a_tmpl
                te = re_.find(Q + "SegmentTemplate")
                if te is not None:
                    r_tmpl = _parse_template(te, a_tmpl)
                seglist = None
                sl = re_.find(Q + "SegmentList")
                if sl is None:
                    sl = ae.find(Q + "SegmentList")
                if sl is not None:
                    init = sl.find(Q + "Initialization")
                    seglist = {
                        "timescale": int(sl.attrib.get("timescale", "1")),
                        "duration": int(sl.attrib["duration"]) if "duration" in sl.attrib else None,
                        "init_range": init.attrib.get("range") if init is not None else None,
                        "media_ranges": [u.attrib.get("mediaRange") for u in sl.findall(Q + "SegmentURL")],
                    }
                sb = re_.find(Q + "SegmentBase")
                if sb is not None and seglist is None:
                    init = sb.find(Q + "Initialization")
                    seglist = {
                        "timescale": int(sb.attrib.get("timescale", "1")),
                        "duration": None,
                        "index_range": sb.attrib.get("indexRange"),
                        "init_range": init.attrib.get("range") if init is not None else None,
                        "media_ranges": None,
                    }
                chain = [mpd_bases, p_bases, a_bases, r_bases]
                reps.append(Rep(
                    id=re_.attrib.get("id", ""), bandwidth=int(re_.attrib.get("bandwidth", "0") or 0),
                    base_urls=[resolve_base(url, chain)], template=r_tmpl, seglist=seglist,
                    attrib=dict(re_.attrib), elem=re_))
            prots = []
            for cp in list(ae.findall(Q + "ContentProtection")) + [
                    c for r in ae.findall(Q + "Representation") for c in r.findall(Q + "ContentProtection")]:
                prots.append({"attrib": dict(cp.attrib), "elem": cp})
            asets.append(ASet(
                id=ae.attrib.get("id"), content_type=ae.attrib.get("contentType") or _ctype(ae),
                reps=reps, attrib=dict(ae.attrib), elem=ae, protections=prots))
        periods.append(PeriodInfo(
            id=pe.attrib.get("id"),
            start=parse_duration(pe.attrib["start"]) if "start" in pe.attrib else None,
            duration=parse_duration(pe.attrib["duration"]) if "duration" in pe.attrib else None,
            asets=asets, elem=pe))
    return Mpd(
        url=url, root=root, type=a.get("type", "static"), attrib=a, ast_us=ast, publish_us=pub, tsbd=tsbd,
        mup=mup, mpd_duration=mpdur, periods=periods,
        locations=[_text(x) for x in root.findall(Q + "Location")],
        patch_locations=[(_text(x), x.attrib.get("ttl")) for x in root.findall(Q + "PatchLocation")],
        utc_timing=[(x.attrib.get("schemeIdUri", ""), x.attrib.get("value", ""))
                    for x in root.findall(Q + "UTCTiming")])


def _ctype(ae) -> str | None:
    mt = ae.attrib.get("mimeType", "")
    if mt.startswith("video"):
        return "video"
    if mt.startswith("audio"):
        return "audio"
    if mt:
        return "text"
    return None


def resolve_base(doc_url: str, chain: list[list[str]]) -> str:
    base = doc_url
    for level in chain:
        if level:
            base = urllib.parse.urljoin(base, level[0])
    return base


_TEMPLATE_ID = re.compile(r"\$(RepresentationID|Number|Time|Bandwidth|)(%0\d+d)?\$")


def template_identifiers(tmpl: str) -> list[str]:
    """All $...$ identifiers used by a template ('' for $$); unknown ones are returned verbatim."""
    out = []
    i = 0
    while True:
        i = tmpl.find("$", i)
        if i < 0:
            break
        j = tmpl.find("$", i + 1)
        if j < 0:
            out.append(tmpl[i:])
            break
        out.append(tmpl[i + 1:j])
        i = j + 1
    return out


def expand(tmpl: str, rep_id: str, bandwidth: int, number: int | None = None, time: int | None = None) -> str:
    def sub(m: re.Match) -> str:
        name, fmt = m.group(1), m.group(2)
        if name == "":
            return "$"
        if name == "RepresentationID":
            return rep_id
        val = {"Number": number, "Time": time, "Bandwidth": bandwidth}[name]
        if val is None:
            raise ValueError(f"template needs ${name}$")
        return (fmt % val) if fmt else str(val)
    return _TEMPLATE_ID.sub(sub, tmpl)


def segment_url(rep: Rep, tmpl_text: str, **kw) -> str:
    return urllib.parse.urljoin(rep.base_urls[0], expand(tmpl_text, rep.id, rep.bandwidth, **kw))


def skeleton(root) -> list[str]:
    """Sorted multiset of element tag paths (C05 twin comparison)."""
    out: list[str] = []

    def walk(e, path: str) -> None:
        if not isinstance(e.tag, str):
            return
        p = path + "/" + e.tag
        out.append(p)
        for ch in e:
            walk(ch, p)
    walk(root, "")
    out.sort()
    return out
