"""Minimal RFC 5261 patch applier for MPD patches (replace / add / remove with the selector forms an MPD
patch uses).  Independent of dashlive.  Namespace handling is lenient on purpose: selector steps and
replacement content are matched by local name and re-homed into the MPD namespace (the DASH patch
document's default namespace is the patch namespace; a client has to do the same to make sense of it).
"""
from __future__ import annotations

import copy
import re

from lxml import etree

from .mpd import NS, PATCH_NS

_STEP = re.compile(r"^(?P<name>[\w:.\-*]+)(?:\[(?P<pred>[^\]]*)\])?$")


class PatchError(ValueError):
    pass


def _local(tag) -> str:
    if not isinstance(tag, str):
        return ""
    return tag.rsplit("}", 1)[-1]


def _select(root, sel: str):
    """Return (kind, node, attrname): kind in {"elem", "attr"}."""
    sel = sel.strip()
    if not sel.startswith("/"):
        raise PatchError(f"relative selector not supported: {sel}")
    steps = [s for s in sel.split("/") if s != ""]
    if not steps:
        raise PatchError("empty selector")
    attr = None
    if steps[-1].startswith("@"):
        attr = steps.pop()[1:]
    first = steps.pop(0)
    m = _STEP.match(first)
    if not m or _local(root.tag) != m.group("name").split(":")[-1]:
        raise PatchError(f"selector root {first!r} does not match <{_local(root.tag)}>")
    node = root
    for step in steps:
        m = _STEP.match(step)
        if not m:
            raise PatchError(f"unsupported selector step {step!r}")
        name = m.group("name").split(":")[-1]
        cands = [c for c in node if isinstance(c.tag, str) and (name == "*" or _local(c.tag) == name)]
        pred = m.group("pred")
        if pred is not None:
            pred = pred.strip()
            if pred.isdigit():
                idx = int(pred)
                cands = cands[idx - 1:idx] if idx >= 1 else []
            else:
                pm = re.match(r"^@([\w:.\-]+)\s*=\s*(['\"])(.*)\2$", pred)
                if not pm:
                    raise PatchError(f"unsupported predicate [{pred}]")
                an, av = pm.group(1).split(":")[-1], pm.group(3)
                cands = [c for c in cands if any(_local(k) == an and v == av for k, v in c.attrib.items())]
        if len(cands) != 1:
            raise PatchError(f"selector step {step!r} matched {len(cands)} nodes (must be exactly 1)")
        node = cands[0]
    if attr is not None:
        return "attr", node, attr
    return "elem", node, None


def _rehome(elem):
    """Copy an element subtree moving patch-namespace (or no-namespace) tags into the MPD namespace."""
    new = copy.deepcopy(elem)
    for e in new.iter():
        if not isinstance(e.tag, str):
            continue
        if e.tag.startswith("{" + PATCH_NS + "}") or not e.tag.startswith("{"):
            e.tag = "{" + NS + "}" + _local(e.tag)
    etree.cleanup_namespaces(new)
    return new


def apply(mpd_root, patch_body: bytes):
    """Apply the patch to a deep copy of ``mpd_root``; returns (new_root, patch_root_attrib, n_ops)."""
    parser = etree.XMLParser(resolve_entities=False, no_network=True)
    proot = etree.fromstring(patch_body, parser)
    if _local(proot.tag) != "Patch":
        raise PatchError(f"patch root is <{_local(proot.tag)}>")
    root = copy.deepcopy(mpd_root)
    n = 0
    for op in proot:
        if not isinstance(op.tag, str):
            continue
        kind = _local(op.tag)
        sel = op.attrib.get("sel")
        if sel is None:
            raise PatchError(f"<{kind}> without sel")
        what, node, attr = _select(root, sel)
        if kind == "replace":
            if what == "attr":
                hit = [k for k in node.attrib if _local(k) == attr]
                if len(hit) != 1:
                    raise PatchError(f"attribute {attr} not present for replace")
                node.attrib[hit[0]] = (op.text or "").strip()
            else:
                kids = [c for c in op if isinstance(c.tag, str)]
                if len(kids) != 1:
                    raise PatchError(f"replace of element needs exactly one element, got {len(kids)}")
                parent = node.getparent()
                if parent is None:
                    raise PatchError("cannot replace the document element")
                new = _rehome(kids[0])
                new.tail = node.tail
                parent.replace(node, new)
        elif kind == "remove":
            if what == "attr":
                for k in [k for k in node.attrib if _local(k) == attr]:
                    del node.attrib[k]
            else:
                node.getparent().remove(node)
        elif kind == "add":
            if what != "elem":
                raise PatchError("add to attribute selector not supported")
            typ = op.attrib.get("type")
            if typ and typ.startswith("@"):
                node.attrib[typ[1:]] = (op.text or "").strip()
            else:
                for c in op:
                    if isinstance(c.tag, str):
                        node.append(_rehome(c))
        else:
            raise PatchError(f"unknown patch operation <{kind}>")
        n += 1
    return root, dict(proot.attrib), n
