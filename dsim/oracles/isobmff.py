"""Independent ISO-BMFF box walker for the oracles (struct only; shares nothing with dashlive.mpeg.mp4).

Parses just enough to judge served segments: box nesting and sizes, mfhd, tfhd, tfdt, trun, senc, saiz,
saio, sidx, emsg, pssh, tenc, mdhd, tkhd, mehd, mdat.
"""
from __future__ import annotations

import hashlib
import struct
from dataclasses import dataclass, field

CONTAINERS = {
    b"moov", b"trak", b"mdia", b"minf", b"stbl", b"mvex", b"moof", b"traf", b"edts", b"dinf", b"sinf",
    b"schi", b"udta", b"mfra",
}
VISUAL = {b"avc1", b"avc3", b"hev1", b"hvc1", b"encv"}
AUDIO = {b"mp4a", b"ec-3", b"ac-3", b"enca"}
PIFF_SENC_UUID = bytes.fromhex("a2394f525a9b4f14a2446c427c648df4")
PIFF_TENC_UUID = bytes.fromhex("8974dbce7be74c5184f97148f9882554")
PIFF_PSSH_UUID = bytes.fromhex("d08a4f1810f34a82b6c832d8aba183d3")


class BoxError(ValueError):
    pass


@dataclass
class Box:
    type: bytes
    start: int          # offset of the box in the buffer it was parsed from
    size: int
    header: int
    data: bytes         # the whole buffer (shared)
    children: list["Box"] = field(default_factory=list)
    parent: "Box | None" = None
    usertype: bytes | None = None

    @property
    def end(self) -> int:
        return self.start + self.size

    @property
    def payload(self) -> bytes:
        return self.data[self.start + self.header:self.end]

    @property
    def raw(self) -> bytes:
        return self.data[self.start:self.end]

    @property
    def name(self) -> str:
        return self.type.decode("latin1")

    def find(self, *path: bytes) -> "Box | None":
        cur: Box | None = self
        for t in path:
            nxt = None
            for c in cur.children:
                if c.type == t:
                    nxt = c
                    break
            if nxt is None:
                return None
            cur = nxt
        return cur

    def all(self, t: bytes) -> list["Box"]:
        out = []
        for c in self.children:
            if c.type == t:
                out.append(c)
            out += c.all(t)
        return out

    def path(self) -> str:
        parts = []
        b: Box | None = self
        while b is not None and b.type != b"root":
            parts.append(b.name)
            b = b.parent
        return "/".join(reversed(parts))


def parse(data: bytes, strict: bool = True) -> Box:
    root = Box(b"root", 0, len(data), 0, data)
    _children(root, 0, len(data), strict)
    return root


def _children(parent: Box, off: int, end: int, strict: bool) -> None:
    data = parent.data
    while off < end:
        if off + 8 > end:
            raise BoxError(f"{end - off} stray bytes at {off} inside <{parent.name}>")
        size, typ = struct.unpack_from(">I4s", data, off)
        hdr = 8
        if size == 1:
            if off + 16 > end:
                raise BoxError(f"truncated largesize at {off}")
            size = struct.unpack_from(">Q", data, off + 8)[0]
            hdr = 16
        elif size == 0:
            size = end - off
        if size < hdr or off + size > end:
            raise BoxError(f"box {typ!r} at {off} size {size} does not fit in <{parent.name}> ending {end}")
        box = Box(typ, off, size, hdr, data, parent=parent)
        if typ == b"uuid":
            box.usertype = data[off + hdr:off + hdr + 16]
            box.header = hdr + 16
        parent.children.append(box)
        if typ in CONTAINERS:
            _children(box, off + box.header, off + size, strict)
        elif typ == b"stsd":
            _stsd(box, strict)
        off += size


def _stsd(box: Box, strict: bool) -> None:
    data = box.data
    off = box.start + box.header + 8   # version/flags + entry_count
    end = box.end
    while off + 8 <= end:
        size, typ = struct.unpack_from(">I4s", data, off)
        if size < 8 or off + size > end:
            raise BoxError(f"sample entry {typ!r} size {size} does not fit in stsd")
        entry = Box(typ, off, size, 8, data, parent=box)
        box.children.append(entry)
        inner = None
        if typ in VISUAL:
            inner = off + 8 + 78
        elif typ in AUDIO:
            inner = off + 8 + 28
        if inner is not None and inner <= off + size:
            try:
                _children(entry, inner, off + size, strict)
            except BoxError:
                entry.children = []
        off += size


# ------------------------------------------------------------------------------------------ field readers
def full(box: Box) -> tuple[int, int, int]:
    """(version, flags, offset of the first byte after version/flags)"""
    p = box.start + box.header
    vf = struct.unpack_from(">I", box.data, p)[0]
    return vf >> 24, vf & 0xFFFFFF, p + 4


def mfhd_sequence(moof: Box) -> int:
    b = moof.find(b"mfhd")
    if b is None:
        raise BoxError("moof without mfhd")
    _, _, p = full(b)
    return struct.unpack_from(">I", b.data, p)[0]


@dataclass
class Tfhd:
    flags: int
    track_id: int
    base_data_offset: int | None
    default_sample_duration: int | None
    default_sample_size: int | None
    default_base_is_moof: bool


def tfhd(traf: Box) -> Tfhd:
    b = traf.find(b"tfhd")
    if b is None:
        raise BoxError("traf without tfhd")
    _, flags, p = full(b)
    d = b.data
    track_id = struct.unpack_from(">I", d, p)[0]
    p += 4
    bdo = dsd = dss = None
    if flags & 0x1:
        bdo = struct.unpack_from(">Q", d, p)[0]
        p += 8
    if flags & 0x2:
        p += 4
    if flags & 0x8:
        dsd = struct.unpack_from(">I", d, p)[0]
        p += 4
    if flags & 0x10:
        dss = struct.unpack_from(">I", d, p)[0]
        p += 4
    if flags & 0x20:
        p += 4
    if p > b.end:
        raise BoxError("tfhd shorter than its flags require")
    return Tfhd(flags, track_id, bdo, dsd, dss, bool(flags & 0x020000))


def tfdt(traf: Box) -> tuple[int, int] | None:
    """(version, baseMediaDecodeTime) or None"""
    b = traf.find(b"tfdt")
    if b is None:
        return None
    ver, _, p = full(b)
    if ver == 1:
        if b.size != b.header + 12:
            raise BoxError(f"tfdt v1 size {b.size}")
        return ver, struct.unpack_from(">Q", b.data, p)[0]
    if b.size != b.header + 8:
        raise BoxError(f"tfdt v0 size {b.size}")
    return ver, struct.unpack_from(">I", b.data, p)[0]


@dataclass
class Trun:
    flags: int
    sample_count: int
    data_offset: int | None
    durations: list[int | None]
    sizes: list[int | None]
    box: Box


def trun(traf: Box) -> Trun:
    b = traf.find(b"trun")
    if b is None:
        raise BoxError("traf without trun")
    ver, flags, p = full(b)
    d = b.data
    count = struct.unpack_from(">I", d, p)[0]
    p += 4
    data_offset = None
    if flags & 0x1:
        data_offset = struct.unpack_from(">i", d, p)[0]
        p += 4
    if flags & 0x4:
        p += 4
    per = 4 * (bool(flags & 0x100) + bool(flags & 0x200) + bool(flags & 0x400) + bool(flags & 0x800))
    if p + per * count != b.end:
        raise BoxError(f"trun: {count} samples x {per} bytes do not fill the box ({b.end - p} bytes left)")
    durs: list[int | None] = []
    sizes: list[int | None] = []
    for _ in range(count):
        dur = size = None
        if flags & 0x100:
            dur = struct.unpack_from(">I", d, p)[0]
            p += 4
        if flags & 0x200:
            size = struct.unpack_from(">I", d, p)[0]
            p += 4
        if flags & 0x400:
            p += 4
        if flags & 0x800:
            p += 4
        durs.append(dur)
        sizes.append(size)
    return Trun(flags, count, data_offset, durs, sizes, b)


@dataclass
class Senc:
    box: Box
    flags: int
    sample_count: int
    first_entry_offset: int     # absolute offset (in the parsed buffer) of the first sample's IV
    entries_ok: bool
    piff: bool


def senc(traf: Box, iv_size: int | None) -> Senc | None:
    b = traf.find(b"senc")
    piff = False
    if b is None:
        for u in traf.children:
            if u.type == b"uuid" and u.usertype == PIFF_SENC_UUID:
                b = u
                piff = True
                break
    if b is None:
        return None
    _, flags, p = full(b)
    d = b.data
    if piff and flags & 0x1:
        p += 20     # AlgorithmID(3) + IV_size(1) + KID(16)
    count = struct.unpack_from(">I", d, p)[0]
    p += 4
    first = p
    ok = True
    if iv_size:
        q = p
        for _ in range(count):
            q += iv_size
            if flags & 0x2:
                if q + 2 > b.end:
                    ok = False
                    break
                n = struct.unpack_from(">H", d, q)[0]
                q += 2 + 6 * n
            if q > b.end:
                ok = False
                break
        if ok and q != b.end:
            ok = False
    return Senc(b, flags, count, first, ok, piff)


def saio_offsets(traf: Box) -> list[int] | None:
    b = traf.find(b"saio")
    if b is None:
        return None
    ver, flags, p = full(b)
    d = b.data
    if flags & 1:
        p += 8
    n = struct.unpack_from(">I", d, p)[0]
    p += 4
    out = []
    for _ in range(n):
        if ver == 0:
            out.append(struct.unpack_from(">I", d, p)[0])
            p += 4
        else:
            out.append(struct.unpack_from(">Q", d, p)[0])
            p += 8
    if p != b.end:
        raise BoxError("saio entries do not fill the box")
    return out


def saiz_count(traf: Box) -> int | None:
    b = traf.find(b"saiz")
    if b is None:
        return None
    _, flags, p = full(b)
    if flags & 1:
        p += 8
    return struct.unpack_from(">I", b.data, p + 1)[0]


@dataclass
class Emsg:
    version: int
    scheme: str
    value: str
    timescale: int
    presentation_time: int | None
    presentation_time_delta: int | None
    duration: int
    id: int
    data: bytes
    box: Box


def _cstr(d: bytes, p: int, end: int) -> tuple[str, int]:
    q = d.index(b"\0", p, end)
    return d[p:q].decode("utf-8", "replace"), q + 1


def emsg(b: Box) -> Emsg:
    ver, _, p = full(b)
    d = b.data
    if ver == 0:
        scheme, p = _cstr(d, p, b.end)
        value, p = _cstr(d, p, b.end)
        ts, delta, dur, eid = struct.unpack_from(">IIII", d, p)
        p += 16
        return Emsg(0, scheme, value, ts, None, delta, dur, eid, d[p:b.end], b)
    if ver == 1:
        ts, pt, dur, eid = struct.unpack_from(">IQII", d, p)
        p += 20
        scheme, p = _cstr(d, p, b.end)
        value, p = _cstr(d, p, b.end)
        return Emsg(1, scheme, value, ts, pt, None, dur, eid, d[p:b.end], b)
    raise BoxError(f"emsg version {ver}")


@dataclass
class Pssh:
    version: int
    system_id: bytes
    kids: list[bytes]
    data: bytes
    box: Box


def pssh(b: Box) -> Pssh:
    ver, _, p = full(b)
    d = b.data
    sysid = d[p:p + 16]
    p += 16
    kids = []
    if ver > 0:
        n = struct.unpack_from(">I", d, p)[0]
        p += 4
        for _ in range(n):
            kids.append(d[p:p + 16])
            p += 16
    n = struct.unpack_from(">I", d, p)[0]
    p += 4
    if p + n != b.end:
        raise BoxError(f"pssh data size {n} does not fill the box")
    return Pssh(ver, sysid, kids, d[p:p + n], b)


def tenc_info(moov: Box) -> tuple[bytes, int] | None:
    """(default KID, per-sample IV size) from the first tenc found under moov."""
    for b in moov.all(b"tenc"):
        _, _, p = full(b)
        d = b.data
        iv = d[p + 3]
        kid = d[p + 4:p + 20]
        return kid, iv
    raw = moov.raw
    i = raw.find(b"tenc")
    if i >= 4:
        p = i + 4 + 4
        return raw[p + 4:p + 20], raw[p + 3]
    return None


def mdhd_timescale(moov: Box) -> int:
    b = moov.find(b"trak", b"mdia", b"mdhd")
    ver, _, p = full(b)
    return struct.unpack_from(">I", b.data, p + (16 if ver == 1 else 8))[0]


def track_id(moov: Box) -> int:
    b = moov.find(b"trak", b"tkhd")
    ver, _, p = full(b)
    return struct.unpack_from(">I", b.data, p + (16 if ver == 1 else 8))[0]


# ------------------------------------------------------------------------------------------ whole-segment view
@dataclass
class MediaSegment:
    root: Box
    moof: Box
    traf: Box
    mdat: Box
    sequence: int
    tfhd: Tfhd
    tfdt: tuple[int, int] | None
    trun: Trun
    emsgs: list[Emsg]
    has_sidx: bool

    @property
    def payload(self) -> bytes:
        return self.mdat.payload

    def total_duration(self, trex_default: int | None = None) -> int | None:
        total = 0
        for dur in self.trun.durations:
            if dur is None:
                dur = self.tfhd.default_sample_duration
            if dur is None:
                dur = trex_default
            if dur is None:
                return None
            total += dur
        return total

    def total_size(self) -> int | None:
        total = 0
        for sz in self.trun.sizes:
            if sz is None:
                sz = self.tfhd.default_sample_size
            if sz is None:
                return None
            total += sz
        return total

    def data_start(self) -> int | None:
        """Absolute offset (within the parsed buffer) that trun.data_offset designates."""
        if self.trun.data_offset is None:
            return None
        base = self.moof.start if self.tfhd.base_data_offset is None else self.tfhd.base_data_offset
        return base + self.trun.data_offset


def media_segment(data: bytes) -> MediaSegment:
    root = parse(data)
    moofs = [b for b in root.children if b.type == b"moof"]
    mdats = [b for b in root.children if b.type == b"mdat"]
    if len(moofs) != 1 or len(mdats) != 1:
        raise BoxError(f"expected one moof and one mdat, got {len(moofs)} / {len(mdats)}: "
                       f"{[b.name for b in root.children]}")
    moof = moofs[0]
    trafs = [b for b in moof.children if b.type == b"traf"]
    if len(trafs) != 1:
        raise BoxError(f"expected one traf, got {len(trafs)}")
    traf = trafs[0]
    return MediaSegment(
        root=root, moof=moof, traf=traf, mdat=mdats[0], sequence=mfhd_sequence(moof), tfhd=tfhd(traf),
        tfdt=tfdt(traf), trun=trun(traf), emsgs=[emsg(b) for b in root.children if b.type == b"emsg"],
        has_sidx=any(b.type == b"sidx" for b in root.children))


@dataclass
class StoredSegment:
    index: int            # 1-based media segment index in file order
    moof_pos: int
    decode_time: int      # from tfdt, or accumulated
    duration: int
    payload_sha: str
    payload_len: int
    end: int = 0          # offset one past the last byte of the segment's last box (incl. trailing boxes)
    has_tfdt: bool = True


@dataclass
class StoredFile:
    name: str
    size: int
    timescale: int
    track_id: int
    init_end: int         # offset of the first moof-related top-level box after moov
    moov: Box
    root: Box
    segments: list[StoredSegment]
    by_sha: dict[str, list[StoredSegment]]
    kid: bytes | None
    iv_size: int | None
    top: list[tuple[str, int, int]]
    default_sample_duration: int | None = None

    @property
    def total_duration(self) -> int:
        return sum(s.duration for s in self.segments)


_STORED: dict[tuple, StoredFile] = {}


def stored_file(path: str) -> StoredFile:
    import os
    st = os.stat(path)
    key = (path, st.st_size, st.st_mtime_ns)
    sf = _STORED.get(key)
    if sf is not None:
        return sf
    with open(path, "rb") as f:
        data = f.read()
    sf = scan_stored(os.path.basename(path), data)
    if len(_STORED) > 64:
        _STORED.clear()
    _STORED[key] = sf
    return sf


def scan_stored(name: str, data: bytes) -> StoredFile:
    root = parse(data)
    moov = root.find(b"moov")
    if moov is None:
        raise BoxError("stored file without moov")
    trex = moov.find(b"mvex", b"trex")
    default_dur = None
    if trex is not None:
        _, _, p = full(trex)
        default_dur = struct.unpack_from(">I", data, p + 8)[0]
    segs: list[StoredSegment] = []
    acc = None
    top = [(b.name, b.start, b.size) for b in root.children]
    kids = root.children
    for i, b in enumerate(kids):
        if b.type != b"moof":
            continue
        mdat = next((c for c in kids[i + 1:] if c.type in (b"mdat", b"moof")), None)
        if mdat is None or mdat.type != b"mdat":
            raise BoxError(f"moof at {b.start} without mdat")
        trafs = [c for c in b.children if c.type == b"traf"]
        traf = trafs[0]
        th = tfhd(traf)
        tr = trun(traf)
        td = tfdt(traf)
        dur = 0
        for d_ in tr.durations:
            if d_ is None:
                d_ = th.default_sample_duration if th.default_sample_duration is not None else default_dur
            dur += d_ or 0
        if td is not None:
            start = td[1]
        else:
            start = acc if acc is not None else 0
        acc = start + dur
        payload = mdat.payload
        segs.append(StoredSegment(
            index=len(segs) + 1, moof_pos=b.start, decode_time=start, duration=dur,
            payload_sha=hashlib.sha1(payload).hexdigest(), payload_len=len(payload), has_tfdt=td is not None))
    init_end = moov.end
    by_sha: dict[str, list[StoredSegment]] = {}
    for sg in segs:
        by_sha.setdefault(sg.payload_sha, []).append(sg)
    ti = tenc_info(moov)
    sf = StoredFile(
        name=name, size=len(data), timescale=mdhd_timescale(moov), track_id=track_id(moov), init_end=init_end,
        moov=moov, root=root, segments=segs, by_sha=by_sha,
        kid=ti[0] if ti else None, iv_size=ti[1] if ti else None, top=top,
        default_sample_duration=default_dur)
    return sf


def flatten(root: Box, skip_payload_of: tuple[bytes, ...] = (b"mdat",)) -> list[tuple[str, bytes]]:
    """Depth-first list of (path, bytes) for leaf boxes and (path, header bytes) for containers."""
    out: list[tuple[str, bytes]] = []

    def walk(b: Box) -> None:
        if b.children and b.type != b"stsd":
            out.append((b.path() + "/", b.data[b.start + 4:b.start + b.header]))
            for c in b.children:
                walk(c)
        else:
            out.append((b.path(), b.raw if b.type not in skip_payload_of else b.raw[:b.header]))
    for c in root.children:
        walk(c)
    return out
