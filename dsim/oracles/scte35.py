"""Independent SCTE-35 splice_info_section reader (bit reader + CRC-32/MPEG-2); shares nothing with
dashlive.scte35.  Only what the oracle needs: splice_insert fields, break duration, CRC validity."""
from __future__ import annotations

from dataclasses import dataclass


class Scte35Error(ValueError):
    pass


class Bits:
    def __init__(self, data: bytes) -> None:
        self.data = data
        self.pos = 0

    def read(self, n: int) -> int:
        if self.pos + n > len(self.data) * 8:
            raise Scte35Error("read past the end of the section")
        val = 0
        for _ in range(n):
            byte = self.data[self.pos >> 3]
            val = (val << 1) | ((byte >> (7 - (self.pos & 7))) & 1)
            self.pos += 1
        return val


def crc32_mpeg2(data: bytes) -> int:
    crc = 0xFFFFFFFF
    for b in data:
        crc ^= b << 24
        for _ in range(8):
            crc = ((crc << 1) ^ 0x04C11DB7) & 0xFFFFFFFF if crc & 0x80000000 else (crc << 1) & 0xFFFFFFFF
    return crc


@dataclass
class SpliceInsert:
    event_id: int
    cancel: bool
    out_of_network: bool
    program_splice: bool
    duration_flag: bool
    immediate: bool
    pts: int | None
    auto_return: bool | None
    break_duration: int | None
    unique_program_id: int | None
    avail_num: int | None
    avails_expected: int | None
    crc_ok: bool
    section_length: int
    command_type: int


def parse(data: bytes) -> SpliceInsert:
    b = Bits(data)
    table_id = b.read(8)
    if table_id != 0xFC:
        raise Scte35Error(f"table_id {table_id:#x}")
    b.read(1)  # section_syntax_indicator
    b.read(1)  # private
    b.read(2)  # sap / reserved
    section_length = b.read(12)
    if section_length + 3 != len(data):
        raise Scte35Error(f"section_length {section_length} but {len(data)} bytes")
    b.read(8)   # protocol_version
    b.read(1)   # encrypted
    b.read(6)   # encryption algorithm
    b.read(33)  # pts_adjustment
    b.read(8)   # cw_index
    b.read(12)  # tier
    b.read(12)  # splice_command_length
    ctype = b.read(8)
    crc_ok = crc32_mpeg2(data[:-4]) == int.from_bytes(data[-4:], "big")
    if ctype != 5:
        return SpliceInsert(0, False, False, False, False, False, None, None, None, None, None, None, crc_ok,
                            section_length, ctype)
    event_id = b.read(32)
    cancel = bool(b.read(1))
    b.read(7)
    out = prog = dur = imm = False
    pts = auto = brk = upid = avail = expected = None
    if not cancel:
        out = bool(b.read(1))
        prog = bool(b.read(1))
        dur = bool(b.read(1))
        imm = bool(b.read(1))
        b.read(4)
        if prog and not imm:
            if b.read(1):       # time_specified_flag
                b.read(6)
                pts = b.read(33)
            else:
                b.read(7)
        if not prog:
            n = b.read(8)
            for _ in range(n):
                b.read(8)
                if not imm:
                    if b.read(1):
                        b.read(6)
                        b.read(33)
                    else:
                        b.read(7)
        if dur:
            auto = bool(b.read(1))
            b.read(6)
            brk = b.read(33)
        upid = b.read(16)
        avail = b.read(8)
        expected = b.read(8)
    return SpliceInsert(event_id, cancel, out, prog, dur, imm, pts, auto, brk, upid, avail, expected, crc_ok,
                        section_length, ctype)
