"""World templates: build a populated deployment through the real management API, memoise it per worker
process (keyed by the hash of the template description) and restore it by file copy.

Template description (JSON-able):
  {"users": true,
   "streams": [{"dir": "bbb", "title": "Big Buck Bunny", "files": ["bbb/bbb_v7.mp4", ...] | [{"forge": {...}}],
                "timing_ref": "bbb_v7", "marlin_la_url": "", "playready_la_url": "", "defaults": {...}}],
   "mps": [{"name": ..., "title": ..., "periods": [...]}]}
"""
from __future__ import annotations

import hashlib
import json
import shutil
from pathlib import Path

from . import boot
from . import clock as simclock
from .api import ApiClient, direct_transport, run_sync
from .world import CookieJar, HarnessError, World, SCRATCH_ROOT

FIXTURES = boot.REPO / "tests" / "fixtures"

USERS = {
    "admin": ("admin", "adm1nPassw0rd", "admin@dsim.test", "ADMIN"),
    "media": ("media", "m3d1aPassw0rd", "media@dsim.test", "USER+MEDIA"),
    "user": ("user", "us3rPassw0rd", "user@dsim.test", "USER"),
}

BUILD_TIME = "2024-01-01T00:00:00Z"

BBB_CLEAR = ["bbb/bbb_v6.mp4", "bbb/bbb_v7.mp4", "bbb/bbb_a1.mp4", "bbb/bbb_a2.mp4", "bbb/bbb_t1.mp4"]
BBB_ENC = ["bbb/bbb_v6_enc.mp4", "bbb/bbb_v7_enc.mp4", "bbb/bbb_a1_enc.mp4", "bbb/bbb_a2_enc.mp4"]
TEARS = ["tears/tears_v1.mp4", "tears/tears_v2.mp4", "tears/tears_a1.mp4"]

PLAYREADY_LA = "https://test.playready.microsoft.com/service/rightsmanager.asmx?cfg={cfgs}"


def std_stream(name: str = "bbb", enc: bool = True, text: bool = True, **extra) -> dict:
    if name == "bbb":
        files = list(BBB_CLEAR if text else BBB_CLEAR[:-1]) + (BBB_ENC if enc else [])
        d = {"dir": "bbb", "title": "Big Buck Bunny", "files": files, "timing_ref": "bbb_v7",
             "marlin_la_url": "ms3://localhost/marlin/bbb", "playready_la_url": PLAYREADY_LA}
    elif name == "tears":
        d = {"dir": "tears", "title": "Tears of Steel", "files": list(TEARS), "timing_ref": "tears_v1",
             "marlin_la_url": "", "playready_la_url": ""}
    else:
        raise HarnessError(f"unknown standard stream {name}")
    d.update(extra)
    return d


def template_key(template: dict) -> str:
    return hashlib.sha1(json.dumps(template, sort_keys=True).encode()).hexdigest()[:16]


def file_bytes(entry) -> tuple[str, bytes]:
    if isinstance(entry, str):
        p = FIXTURES / entry
        return p.name, p.read_bytes()
    if isinstance(entry, dict) and "copy" in entry:
        # a fixture stored under another name (media file names are unique across streams)
        return entry["as"], (FIXTURES / entry["copy"]).read_bytes()
    if isinstance(entry, dict) and "forge" in entry:
        from . import forge
        return forge.build(entry["forge"])
    raise HarnessError(f"bad file entry {entry!r}")


def create_users(world: World) -> None:
    from dashlive.server import models
    with world.app.app_context():
        for uname, (username, password, email, groups) in USERS.items():
            mask = 0
            for g in groups.split("+"):
                mask += models.Group[g].value
            user = models.User(
                username=username, email=email, password=models.User.hash_password(password),
                groups_mask=mask, must_change=False)
            models.db.session.add(user)
        models.User.get_guest_user()
        models.db.session.commit()


def build(world: World, template: dict) -> dict:
    """Populate a freshly started world through the management API. Returns an info dict."""
    saved = simclock.CLOCK.us
    simclock.CLOCK.us = simclock.SimClock.parse(BUILD_TIME)
    info: dict = {"streams": {}, "mps": {}}
    try:
        create_users(world)
        jar = CookieJar()
        api = ApiClient(direct_transport(world, "builder", jar))
        if not run_sync(api.login(*USERS["media"][:2])):
            raise HarnessError("builder login failed")
        for st in template.get("streams", []):
            js = run_sync(api.add_stream(st["dir"], st["title"], st.get("marlin_la_url", ""),
                                         st.get("playready_la_url", "")))
            if js is None:
                raise HarnessError(f"add_stream failed: {api.last.status} {api.last.text[:200]}")
            spk = js["pk"]
            sinfo = {"pk": spk, "files": {}}
            for entry in st["files"]:
                fname, data = file_bytes(entry)
                up = run_sync(api.upload(spk, fname, data))
                if up is None:
                    raise HarnessError(f"upload {fname} failed: {api.last.status} {api.last.text[:300]}")
                mfid = up["pk"]
                ix = run_sync(api.index(mfid, spk))
                if ix is None or ix.get("errors"):
                    if not (isinstance(entry, dict) and entry.get("allow_errors")):
                        raise HarnessError(f"index {fname} failed: {api.last.status} {api.last.text[:300]}")
                sinfo["files"][Path(fname).stem] = {"pk": mfid, "filename": fname}
            if st.get("timing_ref"):
                if not run_sync(api.set_timing_ref(spk, st["timing_ref"])):
                    raise HarnessError(f"set_timing_ref failed: {api.last.status} {api.last.text[:300]}")
            if st.get("defaults"):
                resp = run_sync(api.set_defaults(spk, st["defaults"]))
                if resp.status >= 400:
                    raise HarnessError(f"set_defaults failed: {resp.status}")
            info["streams"][st["dir"]] = sinfo
        for mps in template.get("mps", []):
            model = {"name": mps["name"], "title": mps["title"], "options": mps.get("options"), "periods": []}
            for i, prd in enumerate(mps["periods"], start=1):
                model["periods"].append({
                    "pk": None, "pid": prd["pid"], "ordering": prd.get("ordering", i),
                    "stream": info["streams"][prd["stream"]]["pk"],
                    "start": prd.get("start", "PT0S"), "duration": prd.get("duration", ""),
                    "tracks": prd["tracks"]})
            resp = run_sync(api.add_mps(model))
            js = api.js(resp)
            if resp.status != 200 or not js.get("success"):
                raise HarnessError(f"add_mps failed: {resp.status} {resp.text[:300]}")
            info["mps"][mps["name"]] = js["model"]
    finally:
        simclock.CLOCK.us = saved
    return info


_MEMO: dict[str, dict] = {}


def instantiate(name: str, template: dict, secrets_seed: int = 0,
                share_blobs: bool = False) -> tuple[World, dict]:
    """Return a started World holding a private copy of the template's durable state."""
    key = template_key(template)
    tdir = SCRATCH_ROOT / f"tmpl-{key}"
    if key not in _MEMO:
        w = World(name=f"tmpl-{key}", secrets_seed=12345)
        w.create_dirs(fresh=True)
        w.start()
        try:
            info = build(w, template)
        finally:
            w.stop()
        boot.restore_globals()
        _MEMO[key] = info
    world = World(name=name, secrets_seed=secrets_seed)
    if world.root.exists():
        shutil.rmtree(world.root)
    if share_blobs:
        # read-only workloads: private SQLite file, blob directory shared with the template by symlink
        (world.instance / "media").mkdir(parents=True)
        shutil.copy2(tdir / "instance" / "models.db3", world.db_file)
        (world.instance / "media" / "uploads").mkdir()
        (world.instance / "media" / "blobs").symlink_to(tdir / "instance" / "media" / "blobs", target_is_directory=True)
    else:
        shutil.copytree(tdir, world.root)
    # every run starts like a fresh process: module- and class-level state left behind by earlier runs of this
    # worker must not leak into this one (it would make the outcome depend on the worker's history)
    boot.restore_globals()
    world.start()
    return world, json.loads(json.dumps(_MEMO[key]))
