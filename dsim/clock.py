"""SimClock: the only clock dash-live, its dependencies and the actors can read.

One integer (microseconds of simulated UTC since the Unix epoch).  ``install()`` is called once per
worker process, after ``dashlive.server.app`` has been imported; it replaces

* ``datetime.datetime`` (module attribute) by a subclass whose now()/utcnow()/today() read the clock,
  and overwrites every module-level name that *is* the real class in the modules that matter
  (found by scanning ``sys.modules`` so that a moved import cannot silently escape);
* ``time.time/time_ns/monotonic/monotonic_ns/sleep`` (sleep advances the clock, nothing ever blocks).

Real wall-clock functions are kept in ``REAL`` for the runner's budgets only.
"""
from __future__ import annotations

import datetime as _dt
import sys
import time as _time

REAL_DATETIME = _dt.datetime
UTC = _dt.timezone.utc
EPOCH = REAL_DATETIME(1970, 1, 1, tzinfo=UTC)


class REAL:
    time = _time.time
    monotonic = _time.monotonic
    sleep = _time.sleep
    perf_counter = _time.perf_counter


class SimClock:
    __slots__ = ("us", "reads", "sleeps")

    def __init__(self, us: int = 0) -> None:
        self.us = int(us)
        self.reads = 0
        self.sleeps = 0

    # -- conversions
    @staticmethod
    def parse(iso: str) -> int:
        txt = iso.replace("Z", "+00:00")
        d = REAL_DATETIME.fromisoformat(txt)
        if d.tzinfo is None:
            d = d.replace(tzinfo=UTC)
        delta = d - EPOCH
        return (delta.days * 86400 + delta.seconds) * 1_000_000 + delta.microseconds

    def aware(self) -> _dt.datetime:
        return EPOCH + _dt.timedelta(microseconds=self.us)

    def iso(self) -> str:
        return self.aware().strftime("%Y-%m-%dT%H:%M:%S.%fZ")

    def seconds(self) -> float:
        return self.us / 1e6

    # -- motion
    def advance_us(self, us: int) -> None:
        self.us += int(us)

    def set_us(self, us: int) -> None:
        self.us = int(us)


CLOCK = SimClock(SimClock.parse("2024-01-01T00:00:00Z"))
_INSTALLED: dict = {}

PATCH_PREFIXES = (
    "dashlive", "flask", "flask_jwt_extended", "jwt", "itsdangerous", "werkzeug",
    "flask_login", "flask_sqlalchemy",
)


def set_clock(clock: SimClock) -> None:
    global CLOCK
    CLOCK = clock


def get_clock() -> SimClock:
    return CLOCK


class _Meta(type):
    def __instancecheck__(cls, obj):  # isinstance(x, datetime.datetime) keeps working
        return isinstance(obj, REAL_DATETIME)

    def __subclasscheck__(cls, sub):
        return issubclass(sub, REAL_DATETIME)


class _SimBase(REAL_DATETIME):
    @classmethod
    def now(cls, tz=None):
        CLOCK.reads += 1
        d = EPOCH + _dt.timedelta(microseconds=CLOCK.us)
        if tz is None:
            return d.replace(tzinfo=None)  # process-local time zone is UTC in the simulation
        return d.astimezone(tz)

    @classmethod
    def utcnow(cls):
        CLOCK.reads += 1
        return (EPOCH + _dt.timedelta(microseconds=CLOCK.us)).replace(tzinfo=None)

    @classmethod
    def today(cls):
        return cls.now()


SimDatetime = _Meta("datetime", (_SimBase,), {"__module__": "datetime"})


def _sim_time() -> float:
    CLOCK.reads += 1
    return CLOCK.us / 1e6


def _sim_time_ns() -> int:
    CLOCK.reads += 1
    return CLOCK.us * 1000


def _sim_sleep(secs: float) -> None:
    CLOCK.sleeps += 1
    if secs > 0:
        CLOCK.us += int(round(secs * 1e6))


def install() -> list[str]:
    """Install the patches; returns the sorted list of patched ``module.attr`` names."""
    if _INSTALLED:
        return _INSTALLED["patched"]
    patched: list[str] = []
    _dt.datetime = SimDatetime
    patched.append("datetime.datetime")
    for name, mod in sorted(sys.modules.items()):
        if mod is None or not name.startswith(PATCH_PREFIXES):
            continue
        try:
            items = list(vars(mod).items())
        except TypeError:
            continue
        for attr, val in items:
            if val is REAL_DATETIME:
                setattr(mod, attr, SimDatetime)
                patched.append(f"{name}.{attr}")
    _time.time = _sim_time
    _time.time_ns = _sim_time_ns
    _time.monotonic = _sim_time
    _time.monotonic_ns = _sim_time_ns
    _time.sleep = _sim_sleep
    patched += ["time.time", "time.time_ns", "time.monotonic", "time.monotonic_ns", "time.sleep"]
    _INSTALLED["patched"] = patched
    return patched


def rescan() -> list[str]:
    """Patch modules imported after install() (lazy imports inside handlers)."""
    extra: list[str] = []
    for name, mod in sorted(sys.modules.items()):
        if mod is None or not name.startswith(PATCH_PREFIXES):
            continue
        try:
            items = list(vars(mod).items())
        except TypeError:
            continue
        for attr, val in items:
            if val is REAL_DATETIME:
                setattr(mod, attr, SimDatetime)
                extra.append(f"{name}.{attr}")
    if extra and _INSTALLED:
        _INSTALLED["patched"] += extra
    return extra
