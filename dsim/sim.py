"""Sim: one simulated run = World + VirtualLoop + SimNet + actors.

SimNet is the only transport between actors and the server.  It is the loop's idle hook: whenever every
actor task is blocked, the scheduler picks the next pending message (ties broken by the scheduler PRNG),
executes it atomically against the server and schedules the response delivery.  The sequence of those
decisions is the schedule, recorded in ``world.trace``.
"""
from __future__ import annotations

import asyncio
import hashlib
import random
import urllib.parse
from dataclasses import dataclass, field
from typing import Any, Callable

from . import clock as simclock
from . import vloop
from .world import CookieJar, HarnessError, Response, World, SERVER_HOST


class NetTimeout(Exception):
    pass


@dataclass
class Message:
    mid: int
    actor: "Actor"
    method: str
    url: str
    headers: dict[str, str]
    body: bytes | None
    deliver_at: int
    future: asyncio.Future | None
    fault: dict | None = None
    is_dup: bool = False
    use_jar: bool = True
    truncate_at: int | None = None
    jump_us: int | None = None   # clock event: executed only when no request is ripe (quiescence)


class SimNet:
    def __init__(self, sim: "Sim") -> None:
        self.sim = sim
        self.pending: list[Message] = []
        self.next_mid = 0
        self.delivered = 0
        self.bigrams: set[tuple[str, str]] = set()
        self._last: tuple[str, str] | None = None

    # -- loop idle hook protocol
    def next_time_us(self) -> int | None:
        if not self.pending:
            return None
        return min(m.deliver_at for m in self.pending)

    def deliver_one(self) -> None:
        now = simclock.CLOCK.us
        t0 = min(m.deliver_at for m in self.pending)
        ripe = [m for m in self.pending if m.deliver_at <= max(t0, now)]
        real = [m for m in ripe if m.jump_us is None]
        if real:
            ripe = real      # clock events wait until every request ripe at this instant has been served
        # canonical order of the candidates: it must not depend on the order in which concurrent tasks of one
        # actor happened to issue their requests (the validator gathers over sets of objects, whose iteration
        # order follows memory addresses)
        ripe.sort(key=lambda m: (m.actor.id, m.method, m.url, hashlib.blake2b(m.body or b"", digest_size=8).digest(),
                                 m.is_dup, m.mid))
        if len(ripe) > 1:
            self.sim.world.probe("sched.choice_points")
            msg = ripe[self.sim.sched_rng.randrange(len(ripe))]
        else:
            msg = ripe[0]
        self.pending.remove(msg)
        if msg.jump_us is None and not msg.is_dup:
            # faults are planned by delivery index (canonical), not by the order in which requests were issued
            msg.actor.deliver_index += 1
            msg.fault = msg.actor.fault_plan.get(msg.actor.deliver_index)
        if msg.jump_us is not None:
            self.sim.clock_jump(msg.actor.id, msg.jump_us)
            fut = msg.future
            self.sim.loop.call_soon(lambda: (not fut.done()) and fut.set_result(None))
            return
        self._deliver(msg)

    def _deliver(self, msg: Message) -> None:
        sim = self.sim
        world = sim.world
        loop = sim.loop
        actor = msg.actor
        fault = msg.fault or {}
        kind = fault.get("kind") if not msg.is_dup else None
        if kind == "net.drop_req":
            world.fired("net.drop_req")
            world.note(actor.id, f"drop_req {msg.method} {msg.url}")
            return
        if kind == "net.dup":
            world.fired("net.dup")
            delay = actor.draw_latency()
            dup = Message(
                mid=self._mid(), actor=actor, method=msg.method, url=msg.url, headers=dict(msg.headers),
                body=msg.body, deliver_at=simclock.CLOCK.us + delay, future=None, is_dup=True,
                use_jar=msg.use_jar)
            self.pending.append(dup)
        label = None
        if msg.is_dup:
            label = "dup"
        elif kind:
            label = kind
        hook = sim.before_delivery
        if hook is not None:
            hook(msg)
        resp = world.handle(
            actor.id, msg.method, msg.url, headers=msg.headers, body=msg.body,
            jar=(actor.jar if (msg.use_jar and kind != "net.drop_resp" and not msg.is_dup) else
                 (_ShadowJar(actor.jar) if msg.use_jar else None)),
            fault=label)
        self.delivered += 1
        key = (actor.id, _endpoint_of(msg.url))
        if self._last is not None and self._last[0] != key[0]:
            self.bigrams.add((self._last[1], key[1]))
        self._last = key
        after = sim.after_delivery
        if after is not None:
            after(msg, resp)
        if msg.future is None or msg.future.done():
            return
        if kind == "net.drop_resp":
            world.fired("net.drop_resp")
            return  # the client's own timeout will fire
        if kind == "net.truncate" and resp.status in (200, 206) and len(resp.body) > 0:
            k = int(fault.get("at", 0)) % (len(resp.body) + 1)
            world.fired("net.truncate")
            resp = Response(status=resp.status, headers=resp.headers, body=resp.body[:k],
                            exc=resp.exc, fault=f"net.truncate@{k}")
        corrupt = sim.corruptor
        if corrupt is not None:
            resp = corrupt(msg, resp)
        down = actor.draw_latency()
        fut = msg.future

        def _resolve() -> None:
            if not fut.done():
                fut.set_result(resp)
        if down <= 0:
            loop.call_soon(_resolve)
        else:
            loop.call_at(loop.at_us(simclock.CLOCK.us + down), _resolve)

    def _mid(self) -> int:
        self.next_mid += 1
        return self.next_mid

    async def request(self, actor: "Actor", method: str, url: str,
                      headers: dict[str, str] | None = None, body: bytes | None = None,
                      timeout_s: float | None = 30.0, use_jar: bool = True) -> Response:
        loop = self.sim.loop
        actor.msg_index += 1
        fut = loop.create_future()
        msg = Message(
            mid=self._mid(), actor=actor, method=method, url=url, headers=dict(headers or {}),
            body=body, deliver_at=simclock.CLOCK.us + actor.request_latency(method, url), future=fut, fault=None,
            use_jar=use_jar)
        self.pending.append(msg)
        if timeout_s is None:
            return await fut
        handle = loop.call_at(loop.at_us(simclock.CLOCK.us + int(timeout_s * 1e6)),
                              lambda: (not fut.done()) and fut.set_exception(NetTimeout(url)))
        try:
            return await fut
        finally:
            handle.cancel()


    async def clock_event(self, actor: "Actor", us: int) -> None:
        """Advance the global clock by ``us`` once every request ripe at this instant has been served."""
        fut = self.sim.loop.create_future()
        self.pending.append(Message(
            mid=self._mid(), actor=actor, method="CLOCK", url="", headers={}, body=None,
            deliver_at=simclock.CLOCK.us, future=fut, jump_us=int(us)))
        await fut


class _ShadowJar(CookieJar):
    """Jar used when the response never reaches the client: cookies are sent, Set-Cookie is lost."""

    def __init__(self, real: CookieJar) -> None:
        super().__init__()
        self.cookies = dict(real.cookies)


def _endpoint_of(url: str) -> str:
    path = urllib.parse.urlsplit(url).path
    parts = [p for p in path.split("/") if p]
    out = []
    for p in parts[:4]:
        out.append("#" if p.isdigit() else p)
    return "/" + "/".join(out)


class Actor:
    """Base class: a simulated client with its own PRNG stream, latency model and cookie jar."""

    kind = "actor"

    def __init__(self, sim: "Sim", spec: dict) -> None:
        self.sim = sim
        self.spec = spec
        self.id: str = spec["id"]
        self.rng = random.Random(spec.get("prng", 0))
        lat = spec.get("latency") or {}
        self.lat_min = int(lat.get("min_us", 0))
        self.lat_jitter = int(lat.get("jitter_us", 0))
        self.jar = CookieJar()
        self.msg_index = 0
        self.fault_plan: dict[int, dict] = {}
        for f in spec.get("faults", []) or []:
            self.fault_plan[int(f["msg"])] = f
        self.stopped = False
        self.deliver_index = 0
        self._url_count: dict[tuple[str, str], int] = {}

    def request_latency(self, method: str, url: str) -> int:
        """Upstream latency of a request: a function of the actor's seed, the request and how often this very
        request was issued before - not of the order in which concurrent tasks issued their requests."""
        if self.lat_jitter <= 0:
            return self.lat_min
        n = self._url_count.get((method, url), 0)
        self._url_count[(method, url)] = n + 1
        h = hashlib.blake2b(f"{self.spec.get('prng', 0)}|{method}|{url}|{n}".encode(), digest_size=8).digest()
        return self.lat_min + int.from_bytes(h, "big") % (self.lat_jitter + 1)

    def draw_latency(self) -> int:
        if self.lat_jitter <= 0:
            return self.lat_min
        return self.lat_min + self.rng.randrange(self.lat_jitter + 1)

    async def request(self, method: str, url: str, **kw) -> Response:
        return await self.sim.net.request(self, method, url, **kw)

    async def get(self, url: str, **kw) -> Response:
        return await self.sim.net.request(self, "GET", url, **kw)

    async def sleep_us(self, us: int) -> None:
        await self.sim.sleep_us(us)

    async def run(self) -> None:  # pragma: no cover - overridden
        raise NotImplementedError


class Sim:
    def __init__(self, world: World, sched_seed: int) -> None:
        self.world = world
        self.sched_rng = random.Random(sched_seed)
        self.loop: vloop.VirtualLoop | None = None
        self.net = SimNet(self)
        self.actors: list[Actor] = []
        self.before_delivery: Callable[[Message], None] | None = None
        self.after_delivery: Callable[[Message, Response], None] | None = None
        self.corruptor: Callable[[Message, Response], Response] | None = None
        self.violations: list[dict] = []
        self.checks: dict[str, int] = {}
        self.max_events = 20000

    # -- oracle interface
    def check(self, rule: str, n: int = 1) -> None:
        self.checks[rule] = self.checks.get(rule, 0) + n

    def violate(self, rule: str, subject: str, detail: str, **extra: Any) -> None:
        self.violations.append({
            "rule": rule, "subject": subject, "detail": detail[:1500],
            "event": self.world.seq, "t": simclock.CLOCK.iso(), **extra})

    # -- time
    async def sleep_us(self, us: int) -> None:
        if us <= 0:
            await asyncio.sleep(0)
            return
        fut = self.loop.create_future()
        self.loop.call_at(self.loop.at_us(simclock.CLOCK.us + us), lambda: (not fut.done()) and fut.set_result(None))
        await fut

    def clock_jump(self, actor_id: str, us: int) -> None:
        simclock.CLOCK.us += us
        self.world.fired("clock.jump_fwd" if us >= 0 else "clock.jump_back")
        self.world.note(actor_id, f"clock_jump {us}")

    def restart(self, actor_id: str) -> None:
        self.world.note(actor_id, "restart")
        self.world.restart()

    # -- main
    def run(self, actors: list[Actor], max_steps: int = 3_000_000) -> None:
        self.actors = actors

        async def main() -> None:
            self.loop = asyncio.get_running_loop()
            self.loop.idle_hook = self.net
            tasks = [self.loop.create_task(a.run(), name=f"actor-{a.id}") for a in actors]
            done, pending = await asyncio.wait(tasks, return_when=asyncio.FIRST_EXCEPTION)
            for t in pending:
                t.cancel()
            for t in done:
                exc = t.exception()
                if exc is not None:
                    raise exc

        vloop.run(main, max_steps=max_steps)
