"""Runner: seeded sweep over simulated runs on a pool of fresh worker interpreters, violation triage
(known findings), delta-debugging minimisation, fresh-process replay verification and evidence.

Exit status: 0 = property held on everything explored (possibly with KNOWN-FINDING lines);
1 = at least one unlisted violation (a line ``VIOLATION property=<id> replay=<path>`` is printed);
2 = harness error (never reported as a verdict).
"""
from __future__ import annotations

import collections
import copy
import fnmatch
import importlib
import json
import os
import queue
import subprocess
import sys
import threading
import time
from pathlib import Path

VERIF = Path(__file__).resolve().parent.parent
# tooling only (seeded-defect runs against a scratch copy): where replays/ and evidence/ are written
OUT = Path(os.environ.get("DSIM_OUT", str(VERIF)))
PY = "/venv/bin/python"
HASHSEEDS = 4


class WorkerDied(Exception):
    pass


class WorkerProc:
    def __init__(self, hashseed: int, tag: str = "") -> None:
        env = dict(os.environ)
        env["PYTHONHASHSEED"] = str(hashseed)
        env["PYTHONPATH"] = str(VERIF)
        env["PYTHONDONTWRITEBYTECODE"] = "1"
        env["TZ"] = "UTC"
        self.hashseed = hashseed
        self.errlog = open(VERIF / "scratch" / f"worker-{os.getpid()}-{tag}.err", "wb") \
            if (VERIF / "scratch").exists() else subprocess.DEVNULL
        self.proc = subprocess.Popen(
            [PY, "-W", "ignore", "-m", "dsim.worker"], cwd=str(VERIF), env=env,
            stdin=subprocess.PIPE, stdout=subprocess.PIPE, stderr=self.errlog, text=True, bufsize=1)
        self.ready = None

    def wait_ready(self, timeout: float = 120.0) -> dict:
        self.ready = self._read(timeout)
        return self.ready

    def _read(self, timeout: float) -> dict:
        box: list = []

        def rd() -> None:
            try:
                box.append(self.proc.stdout.readline())
            except Exception as err:  # noqa: BLE001
                box.append(err)
        t = threading.Thread(target=rd, daemon=True)
        t.start()
        t.join(timeout)
        if t.is_alive() or not box or not box[0] or isinstance(box[0], Exception):
            self.kill()
            raise WorkerDied(f"worker (hashseed {self.hashseed}) gave no answer within {timeout}s")
        return json.loads(box[0])

    def call(self, cmd: dict, timeout: float = 200.0) -> dict:
        cmd = dict(cmd)
        cmd.setdefault("timeout", timeout - 10)
        try:
            self.proc.stdin.write(json.dumps(cmd) + "\n")
            self.proc.stdin.flush()
        except (BrokenPipeError, OSError) as err:
            raise WorkerDied(str(err))
        return self._read(timeout)

    def close(self) -> None:
        try:
            if self.proc.poll() is None:
                self.proc.stdin.write(json.dumps({"cmd": "quit"}) + "\n")
                self.proc.stdin.flush()
                self.proc.wait(timeout=10)
        except Exception:  # noqa: BLE001
            self.kill()
        if self.errlog is not subprocess.DEVNULL:
            self.errlog.close()

    def kill(self) -> None:
        try:
            self.proc.kill()
        except Exception:  # noqa: BLE001
            pass
        import shutil
        shutil.rmtree(f"/dev/shm/dsim-{self.proc.pid}", ignore_errors=True)


# --------------------------------------------------------------------------------------- known findings
def load_known() -> list[dict]:
    p = Path(os.environ.get("DSIM_KNOWN", str(VERIF / "known_findings.json")))   # tooling: alternative list
    if not p.exists():
        return []
    return json.loads(p.read_text())


def match_known(known: list[dict], prop: str, sig: str) -> dict | None:
    for k in known:
        if k.get("property") != prop or not str(k.get("status", "")).startswith("open"):
            continue
        if fnmatch.fnmatchcase(sig, k["signature"]):
            return k
    return None


# --------------------------------------------------------------------------------------- shrinking
def removable_units(spec: dict) -> list[tuple]:
    units: list[tuple] = []
    actors = spec.get("actors", [])
    for ai, a in enumerate(actors):
        units.append(("actor", ai))
    for ai, a in enumerate(actors):
        for fi in range(len(a.get("faults") or [])):
            units.append(("fault", ai, fi))
        n = len(a.get("script", []))
        for si in range(n):
            units.append(("step", ai, si))
    for ai, a in enumerate(actors):
        for si, st in enumerate(a.get("script", [])):
            for key in sorted((st.get("q") or {}).keys()):
                units.append(("q", ai, si, key))
    for ai, a in enumerate(actors):
        lat = a.get("latency") or {}
        if lat.get("min_us") or lat.get("jitter_us"):
            units.append(("lat", ai))
    for fi in range(len(spec.get("faults") or [])):
        units.append(("gfault", fi))
    return units


def remove_units(spec: dict, units: list[tuple]) -> dict | None:
    new = copy.deepcopy(spec)
    drop_actors = sorted({u[1] for u in units if u[0] == "actor"}, reverse=True)
    if len(drop_actors) >= len(new.get("actors", [])):
        return None
    for u in units:
        if u[0] == "q":
            _, ai, si, key = u
            new["actors"][ai]["script"][si].get("q", {}).pop(key, None)
        elif u[0] == "lat":
            new["actors"][u[1]]["latency"] = {"min_us": 0, "jitter_us": 0}
    step_drops = collections.defaultdict(set)
    fault_drops = collections.defaultdict(set)
    for u in units:
        if u[0] == "step":
            step_drops[u[1]].add(u[2])
        elif u[0] == "fault":
            fault_drops[u[1]].add(u[2])
    for ai, drops in step_drops.items():
        a = new["actors"][ai]
        a["script"] = [s for i, s in enumerate(a["script"]) if i not in drops]
    for ai, drops in fault_drops.items():
        a = new["actors"][ai]
        a["faults"] = [f for i, f in enumerate(a.get("faults") or []) if i not in drops]
    g = sorted({u[1] for u in units if u[0] == "gfault"}, reverse=True)
    for fi in g:
        del new["faults"][fi]
    for ai in drop_actors:
        del new["actors"][ai]
    return new


def shrink(worker: WorkerProc, prop: str, spec: dict, target_sig: str, budget_s: float = 60.0,
           max_runs: int = 250) -> tuple[dict, int]:
    """Greedy delta debugging while the same signature persists."""
    t_end = time.monotonic() + budget_s
    runs = 0

    def still_fails(cand: dict) -> bool:
        nonlocal runs
        runs += 1
        res = worker.call({"cmd": "run_spec", "prop": prop, "spec": cand})
        out = res.get("out") or {}
        return any(v.get("signature") == target_sig for v in out.get("violations", []))

    cur = spec
    changed = True
    while changed and time.monotonic() < t_end and runs < max_runs:
        changed = False
        units = removable_units(cur)
        # chunked passes: halves, quarters, ... then singles
        chunk = max(1, len(units) // 2)
        while chunk >= 1 and time.monotonic() < t_end and runs < max_runs:
            i = 0
            progressed = False
            while i < len(units) and time.monotonic() < t_end and runs < max_runs:
                part = units[i:i + chunk]
                cand = remove_units(cur, part)
                if cand is not None and cand != cur and still_fails(cand):
                    cur = cand
                    units = removable_units(cur)
                    progressed = True
                    changed = True
                else:
                    i += chunk
            if chunk == 1:
                break
            chunk = max(1, chunk // 2)
            if not progressed and chunk > 1:
                continue
    return cur, runs


# --------------------------------------------------------------------------------------- main sweep
def run_check(prop: str, tier: str, verif_seed: int, workers: int | None = None) -> int:
    t_start = time.monotonic()
    mod = importlib.import_module(f"dsim.props.{prop.lower()}")
    bud = mod.budget(tier)
    total_runs = int(os.environ.get("DSIM_RUNS", bud["runs"]))
    wall_s = float(os.environ.get("DSIM_WALL", bud["wall_s"]))
    nworkers = workers or int(os.environ.get("DSIM_WORKERS", min(16, os.cpu_count() or 4)))
    nworkers = max(HASHSEEDS, nworkers - nworkers % HASHSEEDS) if nworkers >= HASHSEEDS else nworkers
    print(f"VERIF_SEED={verif_seed} property={prop} tier={tier} runs<={total_runs} wall<={wall_s}s "
          f"workers={nworkers}", flush=True)
    (VERIF / "scratch").mkdir(exist_ok=True)
    groups = HASHSEEDS if nworkers >= HASHSEEDS else 1
    queues: list[queue.SimpleQueue] = [queue.SimpleQueue() for _ in range(groups)]
    for i in range(total_runs):
        queues[i % groups].put(i)
    results: list[dict] = []
    specs: dict[int, dict] = {}
    samples: list[dict] = []
    harness: list[str] = []
    lock = threading.Lock()
    deadline = t_start + wall_s
    procs: list[WorkerProc] = []

    def drive(wi: int) -> None:
        grp = wi % groups
        hs = grp if groups > 1 else 0
        try:
            w = WorkerProc(hs, tag=f"{prop}-{wi}")
            with lock:
                procs.append(w)
            w.wait_ready()
        except WorkerDied as err:
            with lock:
                harness.append(f"worker {wi} failed to start: {err}")
            return
        try:
            while time.monotonic() < deadline:
                try:
                    idx = queues[grp].get_nowait()
                except queue.Empty:
                    break
                try:
                    res = w.call({"cmd": "gen_run", "prop": prop, "verif_seed": verif_seed, "tier": tier,
                                  "index": idx, "want_spec": False})
                except WorkerDied as err:
                    with lock:
                        harness.append(f"run index {idx}: {err}")
                    return
                if "error" in res:
                    with lock:
                        harness.append(f"run index {idx}: {res['error']} {res.get('trace', '')}")
                    continue
                out = res["out"]
                with lock:
                    results.append(out)
                    if "spec" in res:
                        specs[idx] = res["spec"]
                    elif len(samples) < 3 and out.get("nontrivial"):
                        samples.append(res.get("spec_summary"))
                    if out.get("harness_error"):
                        harness.append(f"run index {idx}: {out['harness_error']}")
        finally:
            w.close()

    threads = [threading.Thread(target=drive, args=(wi,), daemon=True) for wi in range(nworkers)]
    for t in threads:
        t.start()
    for t in threads:
        t.join()
    sweep_s = time.monotonic() - t_start

    # ---------------------------------------------------------------- triage
    known = load_known()
    by_sig: dict[str, list[tuple[int, dict]]] = collections.defaultdict(list)
    for out in results:
        for v in out.get("violations", []):
            by_sig[v["signature"]].append((out["index"], v))
    known_hits: dict[str, dict] = {}
    new_sigs: list[str] = []
    for sig in sorted(by_sig):
        k = match_known(known, prop, sig)
        if k is not None:
            known_hits.setdefault(k["signature"], k)
        else:
            new_sigs.append(sig)
    for ksig, k in sorted(known_hits.items()):
        print(f"KNOWN-FINDING: property={prop} {k['what']} [{ksig}]", flush=True)

    exit_code = 0
    replay_paths: list[str] = []
    if new_sigs and os.environ.get("DSIM_HARVEST"):
        # harvesting mode (tooling only): list every unlisted signature with one example, no minimisation
        for sig in new_sigs:
            idx, v = min(by_sig[sig], key=lambda iv: iv[0])
            print("HARVEST " + json.dumps({"property": prop, "signature": sig, "index": idx, "count": len(by_sig[sig]),
                                           "detail": v["detail"][:600]}), flush=True)
        new_sigs_for_exit = list(new_sigs)
        new_sigs = []
        exit_code = 1 if new_sigs_for_exit else 0
    if new_sigs:
        exit_code = 1
        (OUT / "replays").mkdir(parents=True, exist_ok=True)
        for sig in new_sigs[:3]:
            idx, v = min(by_sig[sig], key=lambda iv: iv[0])
            spec = specs.get(idx)
            if spec is None:
                continue
            hs = spec.get("hashseed", 0) if groups > 1 else 0
            try:
                w = WorkerProc(hs, tag=f"{prop}-shrink")
                w.wait_ready()
                small, nruns = shrink(w, prop, spec, sig, budget_s=float(os.environ.get("DSIM_SHRINK_S", 45)))
                w.close()
            except WorkerDied as err:
                harness.append(f"shrink of {sig}: {err}")
                small, nruns = spec, 0
            # fresh-process replay must reproduce
            fresh_ok, digest, detail = replay_once(prop, small, sig)
            path = OUT / "replays" / f"{prop}-{spec['seed']}-{_sig_slug(sig)}.json"
            doc = {"property": prop, "signature": sig, "verif_seed": verif_seed, "index": idx,
                   "hashseed": small.get("hashseed", 0), "digest": digest, "detail": detail or v["detail"],
                   "shrink_runs": nruns, "spec": small}
            path.write_text(json.dumps(doc, indent=1))
            if fresh_ok:
                print(f"VIOLATION property={prop} replay={path}", flush=True)
                print(f"  signature: {sig}\n  detail: {(detail or v['detail'])[:600]}", flush=True)
                replay_paths.append(str(path))
            else:
                harness.append(f"violation {sig} (index {idx}) did not reproduce in a fresh process")
        for sig in new_sigs[3:]:
            idx, v = min(by_sig[sig], key=lambda iv: iv[0])
            print(f"  (further signature, not minimised) {sig} first at index {idx}: {v['detail'][:200]}", flush=True)
        if not replay_paths and not harness:
            harness.append("violations found but no replay could be produced")

    write_evidence(prop, mod, tier, verif_seed, results, samples, specs, sweep_s, time.monotonic() - t_start,
                   by_sig, known_hits, new_sigs, harness, nworkers)
    if harness:
        for h in harness[:10]:
            print(f"HARNESS: {h[:1500]}", file=sys.stderr, flush=True)
        if exit_code == 0:
            exit_code = 2
    if not results:
        print("HARNESS: no run completed", file=sys.stderr)
        exit_code = 2
    print(f"done: runs={len(results)} violations_new={len(new_sigs)} known={len(known_hits)} "
          f"harness={len(harness)} wall={time.monotonic() - t_start:.1f}s", flush=True)
    return exit_code


def _sig_slug(sig: str) -> str:
    import re
    return re.sub(r"[^A-Za-z0-9_.+-]+", "_", sig)[:80]


def replay_once(prop: str, spec: dict, sig: str | None) -> tuple[bool, str | None, str | None]:
    """Run a spec in a fresh interpreter; returns (signature reproduced, digest, detail)."""
    w = WorkerProc(spec.get("hashseed", 0), tag=f"{prop}-replay")
    try:
        w.wait_ready()
        res = w.call({"cmd": "run_spec", "prop": prop, "spec": spec})
    except WorkerDied:
        return False, None, None
    finally:
        w.close()
    out = res.get("out") or {}
    for v in out.get("violations", []):
        if sig is None or v.get("signature") == sig:
            return True, out.get("digest"), v.get("detail")
    return False, out.get("digest"), None


def replay_file(path: str) -> int:
    doc = json.loads(Path(path).read_text())
    prop, spec, sig = doc["property"], doc["spec"], doc.get("signature")
    print(f"replaying {path}: property={prop} signature={sig} hashseed={spec.get('hashseed', 0)}")
    digests = []
    ok_all = True
    for attempt in range(2):
        ok, digest, detail = replay_once(prop, spec, sig)
        digests.append(digest)
        ok_all = ok_all and ok
        if ok:
            print(f"  run {attempt + 1}: reproduced, digest={digest}\n  detail: {(detail or '')[:800]}")
        else:
            print(f"  run {attempt + 1}: NOT reproduced, digest={digest}")
    if doc.get("digest") and digests[0] != doc["digest"]:
        print(f"  note: trace digest differs from the recorded one ({doc['digest']})")
    if ok_all:
        known = load_known()
        k = match_known(known, prop, sig) if sig else None
        if k is not None:
            print(f"KNOWN-FINDING: property={prop} {k['what']} [{k['signature']}]")
            return 0
        print(f"VIOLATION property={prop} replay={path}")
        return 1
    return 0


# --------------------------------------------------------------------------------------- evidence
def write_evidence(prop, mod, tier, verif_seed, results, samples, specs, sweep_s, wall_s, by_sig,
                   known_hits, new_sigs, harness, nworkers) -> None:
    agg_checks: collections.Counter = collections.Counter()
    agg_faults: collections.Counter = collections.Counter()
    agg_probes: collections.Counter = collections.Counter()
    agg_globals: collections.Counter = collections.Counter()
    bigrams: set[str] = set()
    abstract_nontrivial: set[str] = set()
    abstract_all: set[str] = set()
    requests = 0
    sim_seconds = 0.0
    extra_counters: collections.Counter = collections.Counter()
    for out in results:
        agg_checks.update(out.get("checks") or {})
        agg_faults.update(out.get("faults_fired") or {})
        agg_probes.update(out.get("probes") or {})
        agg_globals.update(out.get("globals_reset") or {})
        bigrams.update(out.get("bigrams") or [])
        requests += out.get("requests") or 0
        sim_seconds += out.get("sim_seconds") or 0.0
        extra_counters.update(out.get("counters") or {})
        a = out.get("abstract")
        if a:
            abstract_all.add(a)
            if out.get("nontrivial"):
                abstract_nontrivial.add(a)
    if not samples:
        for idx in sorted(specs)[:2]:
            from .worker import summarize
            samples.append(summarize(specs[idx]))
    level = getattr(mod, "LEVEL", "exploration")
    n = len(results)
    ev = {
        "property_id": prop,
        "tier": tier,
        "seed": int(verif_seed),
        "level": level,
        "coverage": {
            "evaluations": n,
            "distinct_nontrivial": len(abstract_nontrivial),
            "rule": getattr(mod, "RULE", (
                "each evaluation is one simulated run generated from blake2b(property:VERIF_SEED:index); a run is "
                "non-trivial when its property oracle was evaluated on at least one judged object; distinct = "
                "distinct abstract traces (sequence of actor, endpoint shape, status class, fault)")),
            "samples": samples[:3] or [{"note": "no run completed"}],
            "runs_per_hour": round(n / max(sweep_s, 1e-6) * 3600),
            "requests_total": requests,
            "simulated_seconds_total": round(sim_seconds, 3),
            "distinct_abstract_traces": len(abstract_all),
            "interleaving_bigrams_distinct": len(bigrams),
            "faults_fired": dict(sorted(agg_faults.items())),
            "probes": dict(sorted(agg_probes.items())),
            "oracle_checks": dict(sorted(agg_checks.items())),
            "globals_reset_on_restart": dict(sorted(agg_globals.items())),
            "counters": dict(sorted(extra_counters.items())),
            "components": {
                "real": ["dashlive (all of /repo as in the working tree)", "Flask", "Werkzeug", "SQLAlchemy+SQLite file",
                         "Flask-JWT-Extended", "PyJWT", "Jinja2", "lxml", "passlib bcrypt (rounds=4)"],
                "stub": ["flask_login (shim of 0.6.3 session login)", "sqlalchemy_jsonfield (JSON over Text)",
                         "dotenv (no-op)", "netifaces (empty)", "asgiref.sync (run coroutine inline)",
                         "network/clock/secrets/uuid4 (simulator seams)",
                         "sqlite3 connection class, FileStorage.save, Path.unlink/replace, upload_lock (same behaviour "
                         "with a scheduler seam; pass-through outside bursts)"],
            },
            "workers": nworkers,
            "hashseeds": list(range(HASHSEEDS)),
            "signatures_known": sorted(known_hits),
            "signatures_new": new_sigs[:20],
            "signature_counts": {s: len(v) for s, v in sorted(by_sig.items())},
            "harness_errors": len(harness),
        },
        "assumptions": list(getattr(mod, "ASSUMPTIONS", [])) + [
            "outside bursts and crash points requests are atomic (one WSGI call per scheduler step)",
            "process-crash semantics only (completed system calls persist); no power-loss model",
        ],
        "wall_s": round(wall_s, 2),
        "violations": len(new_sigs),
    }
    (OUT / "evidence").mkdir(parents=True, exist_ok=True)
    (OUT / "evidence" / f"{prop}.json").write_text(json.dumps(ev, indent=1, default=str))
