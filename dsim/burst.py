"""Bursts: a handful of requests served concurrently under the pre-emptive scheduler (dsim.preempt) and judged by
linearizability against the same requests served one after the other.

run_burst() is called from an actor while the event loop is blocked (the burst takes no simulated time):
  1. the durable state (SQLite file + blob directory) is copied aside,
  2. every request runs on its own baton-passing thread; the seeded scheduler picks who passes the next seam,
  3. for every permutation of the requests the copy is put back, the server restarted and the requests served
     sequentially; the concurrent outcome (statuses + abstract durable state) must equal one of them.  A request
     that died of SQLite's lock timeout counts as not having happened,
  4. the concurrent outcome is put back so that the run continues from it.
"""
from __future__ import annotations

import itertools
import json
import random
import shutil
from pathlib import Path

from . import boot, preempt
from . import clock as simclock
from .world import Response, World


def _dicts(state: dict, table: str) -> list[dict]:
    t = state["tables"].get(table) or []
    return [dict(zip(t[0], r)) for r in t[1:]] if t else []


def abstract_state(state: dict) -> dict:
    """Durable state without surrogate keys: rows are described by natural keys, so that two executions that differ
    only in the order of INSERTs compare equal.  The Token table is summarised as uses per CSRF token."""
    streams = {r["pk"]: r for r in _dicts(state, "Stream")}
    blobs = {r["pk"]: r for r in _dicts(state, "Blob")}
    mfs = {r["pk"]: r for r in _dicts(state, "media_file")}
    keys = {r["pk"]: r for r in _dicts(state, "key")}
    mps = {r["pk"]: r for r in _dicts(state, "mp_stream")}
    periods = {r["pk"]: r for r in _dicts(state, "period")}

    def sdir(pk):
        return (streams.get(pk) or {}).get("directory", f"?{pk}")

    out: dict[str, list] = {}
    out["Stream"] = sorted((r["directory"], r["title"], r.get("marlin_la_url"), r.get("playready_la_url"),
                            r.get("timing_reference"), r.get("defaults")) for r in streams.values())
    out["Blob"] = sorted((r["filename"], r.get("size"), r.get("sha1_hash"), r.get("content_type")) for r in blobs.values())
    out["media_file"] = sorted((r["name"], sdir(r["stream"]), (blobs.get(r["blob"]) or {}).get("filename"),
                                r.get("content_type"), r.get("track_id"), r.get("codec_fourcc"), r.get("encrypted"),
                                r.get("rep")) for r in mfs.values())
    out["key"] = sorted((r["hkid"], r["hkey"], r["computed"], r.get("halg")) for r in keys.values())
    out["mediafile_keys"] = sorted(((mfs.get(r.get("media_pk")) or {}).get("name"), (keys.get(r.get("key_pk")) or {}).get("hkid"))
                                   for r in _dicts(state, "mediafile_keys"))
    out["mp_stream"] = sorted((r["name"], r["title"], json.dumps(r.get("options"), sort_keys=True, default=str))
                              for r in mps.values())

    def pkey(pk):
        p = periods.get(pk) or {}
        return ((mps.get(p.get("parent_pk")) or {}).get("name"), p.get("pid"))

    out["period"] = sorted((pkey(r["pk"]), r.get("ordering"), sdir(r.get("stream_pk")), str(r.get("start")),
                            str(r.get("duration"))) for r in periods.values())
    out["adaptation_set"] = sorted((pkey(r.get("period_pk")), r.get("track_id"), r.get("role"), r.get("lang"),
                                    r.get("encrypted"), r.get("content_type_pk"))
                                   for r in _dicts(state, "adaptation_set"))
    out["User"] = sorted((r["username"], r.get("email"), r.get("groups_mask")) for r in _dicts(state, "User"))
    return {"tables": {k: [list(map(_j, row)) for row in v] for k, v in out.items()},
            "blobs": dict(state["blobs"])}


def _j(v):
    return list(map(_j, v)) if isinstance(v, (tuple, list)) else v


def _lock_abort(resp: Response) -> bool:
    return resp.status >= 500 and resp.exc is not None and "database is locked" in str(resp.exc)


def serve(world: World, actor_id: str, req: dict, threaded: bool) -> Response:
    return world.handle(actor_id, req["method"], req["url"], headers=dict(req.get("headers") or {}),
                        body=req.get("body"), jar=None, record=False, threaded=threaded)


def _copy_durable(world: World, dest: Path) -> None:
    if dest.exists():
        shutil.rmtree(dest)
    shutil.copytree(world.instance, dest, symlinks=True)


def _put_back(world: World, src: Path, secrets_seed: int) -> None:
    world.stop()
    shutil.rmtree(world.instance)
    shutil.copytree(src, world.instance, symlinks=True)
    boot.restore_globals(world.globals_reset)
    world.start()
    boot.SECRETS.reseed(secrets_seed)


def csrf_records(world: World) -> list[str]:
    """The stored records of accepted CSRF tokens (read with a private connection)."""
    import sqlite3
    con = sqlite3.connect(world.db_file)
    try:
        return [r[0] for r in con.execute('select jti from "Token" where token_type = 4')]
    finally:
        con.close()


def run_burst(world: World, actor_id: str, requests: list[dict], sched_seed: int,
              forced: list[int] | None = None, check_orders: bool = True) -> dict:
    """Returns {"results": [Response..], "schedule": [...], "linearizable": bool, "orders": [...], ...}."""
    if not world.preemptive:
        raise RuntimeError("bursts need a world started with preemptive=True")
    tmp = world.root / "burst-before"
    after_dir = world.root / "burst-after"
    secrets_seed = random.Random(sched_seed).getrandbits(48)
    world.stop()
    _copy_durable(world, tmp)
    boot.restore_globals(world.globals_reset)
    world.start()
    boot.SECRETS.reseed(secrets_seed)
    # the restart above also clears the CSRF rows (create_app does): every execution below starts from this state
    world.stop()
    _copy_durable(world, tmp)
    world.start()
    boot.SECRETS.reseed(secrets_seed)

    state_before = abstract_state(world.state())
    burst = preempt.Burst(random.Random(sched_seed), forced=forced)
    fns = [(lambda r=r: serve(world, actor_id, r, threaded=True)) for r in requests]
    burst.run(fns)
    results: list[Response] = []
    for i in range(len(requests)):
        if i in burst.errors:
            results.append(Response(status=599, headers=[], body=b"", exc=burst.errors[i], fault="burst-error"))
        else:
            results.append(burst.results[i])
    world.fired("burst")
    for tid, label in burst.schedule:
        if label == "lock-wait":
            world.fired("db.lock_wait")
        elif label == "applock-wait":
            world.fired("app.lock_wait")
    conc_state = world.state()
    conc_abs = abstract_state(conc_state)
    # accepted CSRF tokens (one Token row of type 4 per accepted use); read now: every server start prunes them
    import sqlite3
    con = sqlite3.connect(world.db_file)
    try:
        csrf_rows = [r[0] for r in con.execute('select jti from "Token" where token_type = 4')]
    finally:
        con.close()
    aborted = [i for i, r in enumerate(results) if _lock_abort(r)]
    for _ in aborted:
        world.fired("db.lock_timeout")
    outcome = {"results": results, "schedule": burst.schedule, "aborted": aborted, "state": conc_state,
               "linearizable": None, "orders": [], "interleaved": _interleaved(burst.schedule),
               "csrf_rows": csrf_rows, "changed": conc_abs != state_before, "strategy": burst.strategy}
    for i, (req, resp) in enumerate(zip(requests, results)):
        world.record(actor_id, req["method"], req["url"], resp.status, resp.body, "burst")
    if check_orders:
        world.stop()
        _copy_durable(world, after_dir)
        world.start()
        alive = [i for i in range(len(requests)) if i not in aborted]
        match = None
        orders = []
        for order in itertools.permutations(alive):
            _put_back(world, tmp, secrets_seed)
            seq = {}
            for i in order:
                seq[i] = serve(world, actor_id, requests[i], threaded=False)
            st = abstract_state(world.state())
            same_status = all(seq[i].status == results[i].status for i in alive)
            same_state = st == conc_abs
            orders.append({"order": list(order), "statuses": [seq[i].status for i in order],
                           "same_status": same_status, "same_state": same_state,
                           "diff": None if same_state else _first_diff(st, conc_abs)})
            if same_status and same_state:
                match = list(order)
                break
        outcome["linearizable"] = match is not None
        outcome["orders"] = orders
        outcome["match"] = match
        # continue from what the concurrent execution left behind
        world.stop()
        shutil.rmtree(world.instance)
        shutil.copytree(after_dir, world.instance, symlinks=True)
        world.start()
        boot.SECRETS.reseed(secrets_seed ^ 0x5A5A)
    return outcome


def _interleaved(schedule: list[tuple[int, str]]) -> bool:
    """Did the threads really alternate (more than one switch between threads that had both started)?"""
    switches = sum(1 for a, b in zip(schedule, schedule[1:]) if a[0] != b[0])
    return switches > len({t for t, _ in schedule})


def _first_diff(a: dict, b: dict) -> str:
    for t in sorted(set(a["tables"]) | set(b["tables"])):
        ra, rb = a["tables"].get(t, []), b["tables"].get(t, [])
        if ra != rb:
            only_a = [r for r in ra if r not in rb][:2]
            only_b = [r for r in rb if r not in ra][:2]
            return f"table {t}: sequential has {str(only_a)[:300]}, concurrent has {str(only_b)[:300]}"
    if a["blobs"] != b["blobs"]:
        ka = {k: v for k, v in a["blobs"].items() if b["blobs"].get(k) != v}
        kb = {k: v for k, v in b["blobs"].items() if a["blobs"].get(k) != v}
        return f"blobs: sequential {str(ka)[:200]}, concurrent {str(kb)[:200]}"
    return "?"


def run_crash(world: World, actor_id: str, request: dict, crash_at: int) -> dict:
    """Serve one request on a baton thread and let the process die at its ``crash_at``-th seam (SQL statement,
    commit, rollback, blob save/unlink).  What was not committed is lost, what was written to the blob directory
    stays; the server is then restarted on the surviving files."""
    if not world.preemptive:
        raise RuntimeError("crash points need a world started with preemptive=True")
    b = preempt.Burst(random.Random(0), crash_at=crash_at)
    b.run([lambda: serve(world, actor_id, request, threaded=True)])
    crashed = bool(b.crashed)
    resp = b.results.get(0)
    if crashed:
        world.fired("proc.crash_in_request")
        world.note(actor_id, f"crash at seam {crash_at} ({b.crash_label}) of {request['method']} {request['url'][:120]}")
        world.stop()
        boot.restore_globals(world.globals_reset)
        world.start()
        world.restarts += 1
    else:
        world.record(actor_id, request["method"], request["url"], resp.status if resp else 599,
                     resp.body if resp else b"", None)
    return {"crashed": crashed, "label": b.crash_label, "seams": len(b.schedule), "response": resp,
            "state": world.state()}
