"""Media forge: synthetic fragmented MP4 files with chosen timescale, durations, first decode time and box
layout.  The moov is cloned from a fixture init segment (dash-live needs a real sample entry to derive
codec strings) and patched in place; moof/mdat pairs are written with struct.  Shares nothing with
dashlive.mpeg.mp4.

params = {"name": "fz_v1", "kind": "video"|"audio"|"text", "timescale": 1000, "first_decode_time": 0,
          "durations": [2000, 2000, 1500], "samples": 4, "sample_size": 24, "tfdt": true, "sidx": false,
          "styp": false, "base": "moof"|"explicit", "track_id": 1, "tfdt_version": 0|1}
"""
from __future__ import annotations

import hashlib
import struct

from . import boot
from .oracles import isobmff

FIXTURE_FOR_KIND = {
    "video": "bbb/bbb_v7.mp4",
    "audio": "bbb/bbb_a1.mp4",
    "text": "bbb/bbb_t1.mp4",
}


def _box(typ: bytes, payload: bytes) -> bytes:
    return struct.pack(">I4s", 8 + len(payload), typ) + payload


def _full(typ: bytes, version: int, flags: int, payload: bytes) -> bytes:
    return _box(typ, struct.pack(">I", (version << 24) | flags) + payload)


def _init_segment(kind: str, timescale: int, track_id: int) -> bytes:
    path = boot.REPO / "tests" / "fixtures" / FIXTURE_FOR_KIND[kind]
    data = path.read_bytes()
    root = isobmff.parse(data)
    moov = root.find(b"moov")
    ftyp = root.find(b"ftyp")
    buf = bytearray(ftyp.raw + moov.raw)
    base = len(ftyp.raw) - moov.start   # translate offsets in the fixture to offsets in buf

    def patch_u32(box: isobmff.Box, off_after_fullhdr: int, value: int) -> None:
        ver, _, p = isobmff.full(box)
        struct.pack_into(">I", buf, base + p + off_after_fullhdr, value)

    mdhd = moov.find(b"trak", b"mdia", b"mdhd")
    ver, _, _ = isobmff.full(mdhd)
    patch_u32(mdhd, 16 if ver == 1 else 8, timescale)
    tkhd = moov.find(b"trak", b"tkhd")
    ver, _, _ = isobmff.full(tkhd)
    patch_u32(tkhd, 16 if ver == 1 else 8, track_id)
    trex = moov.find(b"mvex", b"trex")
    if trex is not None:
        patch_u32(trex, 0, track_id)
    mvhd = moov.find(b"mvhd")
    ver, _, _ = isobmff.full(mvhd)
    struct.pack_into(">I", buf, base + mvhd.end - 4, track_id + 1)
    return bytes(buf)


def sample_bytes(name: str, seg: int, idx: int, size: int) -> bytes:
    seed = hashlib.sha1(f"{name}:{seg}:{idx}".encode()).digest()
    out = (seed * (size // len(seed) + 1))[:size]
    return out


def build(params: dict) -> tuple[str, bytes]:
    name = params["name"]
    kind = params.get("kind", "video")
    timescale = int(params.get("timescale", 1000))
    track_id = int(params.get("track_id", {"video": 1, "audio": 2, "text": 3}[kind]))
    durations = [int(d) for d in params["durations"]]
    n_samples = int(params.get("samples", 4))
    sample_size = int(params.get("sample_size", 24))
    with_tfdt = bool(params.get("tfdt", True))
    with_sidx = bool(params.get("sidx", False))
    with_styp = bool(params.get("styp", False))
    base_style = params.get("base", "moof")
    tfdt_version = int(params.get("tfdt_version", 0))
    out = bytearray(_init_segment(kind, timescale, track_id))
    decode = int(params.get("first_decode_time", 0))
    start_number = int(params.get("start_number", 1))
    for si, dur in enumerate(durations, start=1):
        # split the segment duration over the samples (last sample takes the remainder)
        per = max(1, dur // n_samples)
        sdurs = [per] * (n_samples - 1) + [dur - per * (n_samples - 1)]
        if sdurs[-1] <= 0:
            sdurs = [dur]
        samples = [sample_bytes(name, si, i, sample_size + (i % 3)) for i in range(len(sdurs))]
        mdat = _box(b"mdat", b"".join(samples))
        if with_styp:
            out += _box(b"styp", b"msdh\0\0\0\0msdhdash")
        if with_sidx:
            # one reference covering moof+mdat; sizes patched below
            sidx_pos = len(out)
            out += _full(b"sidx", 0, 0, struct.pack(">IIIIHH", track_id, timescale, decode, 0, 0, 1)
                         + struct.pack(">III", 0, dur, 0x90000000))
        moof_pos = len(out)
        mfhd = _full(b"mfhd", 0, 0, struct.pack(">I", start_number + si - 1))
        if base_style == "explicit":
            tfhd = _full(b"tfhd", 0, 0x000001, struct.pack(">IQ", track_id, moof_pos))
        else:
            tfhd = _full(b"tfhd", 0, 0x020000, struct.pack(">I", track_id))
        tfdt = b""
        if with_tfdt:
            if tfdt_version == 1 or decode >= 1 << 32:
                tfdt = _full(b"tfdt", 1, 0, struct.pack(">Q", decode))
            else:
                tfdt = _full(b"tfdt", 0, 0, struct.pack(">I", decode))
        trun_flags = 0x000001 | 0x000100 | 0x000200
        trun_payload_len = 4 + 4 + 8 * len(sdurs)
        traf_len = 8 + len(tfhd) + len(tfdt) + (12 + trun_payload_len)
        moof_len = 8 + len(mfhd) + traf_len
        data_offset = moof_len + 8
        trun = _full(b"trun", 0, trun_flags, struct.pack(">Ii", len(sdurs), data_offset)
                     + b"".join(struct.pack(">II", d, len(s)) for d, s in zip(sdurs, samples)))
        traf = _box(b"traf", tfhd + tfdt + trun)
        moof = _box(b"moof", mfhd + traf)
        assert len(moof) == moof_len, (len(moof), moof_len)
        out += moof + mdat
        if with_sidx:
            struct.pack_into(">I", out, sidx_pos + 12 + 20, (len(moof) + len(mdat)) & 0x7FFFFFFF)
        decode += dur
    return f"{name}.mp4", bytes(out)


def describe(params: dict) -> dict:
    """What the oracle may assume about a forged file (derived from the parameters only)."""
    return {
        "name": params["name"], "timescale": int(params.get("timescale", 1000)),
        "first_decode_time": int(params.get("first_decode_time", 0)),
        "durations": [int(d) for d in params["durations"]],
    }
