"""Management-API client used for world construction and by manager/intruder actors.

Request sequences follow the repository's own API client (dashlive/management/frontend_db.py).  The
client is transport-agnostic: ``send`` is an async callable; world construction drives it synchronously
(the in-process transport never suspends), actors pass SimNet.
"""
from __future__ import annotations

import json
import urllib.parse
from typing import Any, Awaitable, Callable

from .world import CookieJar, Response, World, SERVER_HOST

BASE = f"http://{SERVER_HOST}"
Send = Callable[..., Awaitable[Response]]


def run_sync(coro):
    """Drive a coroutine that never really suspends."""
    try:
        coro.send(None)
    except StopIteration as stop:
        return stop.value
    coro.close()
    raise RuntimeError("coroutine suspended in run_sync")


def direct_transport(world: World, actor_id: str, jar: CookieJar, record: bool = False) -> Send:
    async def send(method: str, url: str, headers: dict | None = None, body: bytes | None = None,
                   **kw) -> Response:
        return world.handle(actor_id, method, url, headers=headers, body=body, jar=jar, record=record)
    return send


def multipart(fields: dict[str, str], files: list[tuple[str, str, bytes, str]], boundary: str) -> tuple[bytes, str]:
    out = bytearray()
    for k, v in fields.items():
        out += f"--{boundary}\r\nContent-Disposition: form-data; name=\"{k}\"\r\n\r\n{v}\r\n".encode()
    for field, filename, data, ctype in files:
        out += (f"--{boundary}\r\nContent-Disposition: form-data; name=\"{field}\"; "
                f"filename=\"{filename}\"\r\nContent-Type: {ctype}\r\n\r\n").encode()
        out += data + b"\r\n"
    out += f"--{boundary}--\r\n".encode()
    return bytes(out), f"multipart/form-data; boundary={boundary}"


def form(fields: dict[str, Any]) -> tuple[bytes, str]:
    pairs = []
    for k, v in fields.items():
        if isinstance(v, (list, tuple)):
            pairs += [(k, x) for x in v]
        else:
            pairs.append((k, v))
    return urllib.parse.urlencode(pairs).encode(), "application/x-www-form-urlencoded"


class ApiClient:
    def __init__(self, send: Send) -> None:
        self.send = send
        self.csrf: dict[str, str | None] = {}
        self.access_token: str | None = None
        self.refresh_token: str | None = None
        self.user: dict | None = None
        self.streams: dict[str, dict] = {}
        self.keys: dict[str, dict] = {}
        self.last: Response | None = None
        self.boundary_n = 0

    # ---------------------------------------------------------------- low level
    async def call(self, method: str, path: str, params: dict | None = None, json_body: Any = None,
                   form_body: dict | None = None, files: list | None = None,
                   headers: dict | None = None, bearer: bool = False) -> Response:
        url = BASE + path
        if params:
            url += ("&" if "?" in url else "?") + urllib.parse.urlencode(params)
        hdrs = dict(headers or {})
        body: bytes | None = None
        if json_body is not None:
            body = json.dumps(json_body).encode()
            hdrs["Content-Type"] = "application/json"
        elif files is not None:
            self.boundary_n += 1
            body, ctype = multipart(form_body or {}, files, f"dsimboundary{self.boundary_n:06d}")
            hdrs["Content-Type"] = ctype
        elif form_body is not None:
            body, ctype = form(form_body)
            hdrs["Content-Type"] = ctype
        if bearer and self.access_token:
            hdrs["Authorization"] = f"Bearer {self.access_token}"
        resp = await self.send(method, url, headers=hdrs, body=body)
        self.last = resp
        return resp

    @staticmethod
    def js(resp: Response) -> dict:
        try:
            val = resp.json()
        except (ValueError, UnicodeDecodeError):
            return {}
        return val if isinstance(val, dict) else {"_": val}

    # ---------------------------------------------------------------- session
    async def login(self, username: str, password: str) -> bool:
        resp = await self.call("POST", "/api/login", json_body={
            "username": username, "password": password, "rememberme": False})
        js = self.js(resp)
        if resp.status != 200 or not js.get("success"):
            return False
        self.user = js.get("user")
        self.access_token = (js.get("accessToken") or {}).get("jwt")
        self.refresh_token = (js.get("refreshToken") or {}).get("jwt")
        return True

    async def guest_token(self) -> bool:
        resp = await self.call("GET", "/api/refresh/access")
        js = self.js(resp)
        tok = js.get("accessToken")
        if resp.status != 200 or not tok:
            return False
        self.access_token = tok.get("jwt") if isinstance(tok, dict) else None
        self.csrf.update(js.get("csrfTokens") or {})
        return self.access_token is not None

    async def fetch_media_info(self) -> bool:
        resp = await self.call("GET", "/streams", params={"ajax": 1})
        js = self.js(resp)
        if resp.status != 200:
            return False
        self.csrf.update(js.get("csrf_tokens") or {})
        self.keys = {k["kid"]: k for k in js.get("keys", [])}
        self.streams = {s["directory"]: s for s in js.get("streams", [])}
        return True

    async def stream_info(self, spk: int) -> dict | None:
        resp = await self.call("GET", f"/stream/{spk}", params={"ajax": 1})
        js = self.js(resp)
        if resp.status != 200:
            return None
        self.csrf.update(js.get("csrf_tokens") or {})
        return js

    def take(self, service: str) -> str | None:
        tok = self.csrf.get(service)
        self.csrf[service] = None
        return tok

    async def token(self, service: str, spk: int | None = None) -> str | None:
        tok = self.take(service)
        if tok is None:
            if spk is not None:
                await self.stream_info(spk)
            else:
                await self.fetch_media_info()
            tok = self.take(service)
        return tok

    # ---------------------------------------------------------------- streams
    async def add_stream(self, directory: str, title: str, marlin_la_url: str = "",
                         playready_la_url: str = "") -> dict | None:
        tok = await self.token("streams")
        resp = await self.call("PUT", "/streams/add", json_body={
            "title": title, "directory": directory, "marlin_la_url": marlin_la_url,
            "playready_la_url": playready_la_url, "csrf_token": tok})
        js = self.js(resp)
        if "csrf_token" in js:
            self.csrf["streams"] = js["csrf_token"]
        if resp.status != 200 or js.get("error"):
            return None
        self.streams[js["directory"]] = js
        return js

    async def edit_stream(self, spk: int, **fields) -> Response:
        info = await self.stream_info(spk) or {}
        data = {k: info.get(k) or "" for k in ("title", "directory", "marlin_la_url", "playready_la_url")}
        tref = info.get("timing_ref")
        data["timing_ref"] = tref["media_name"] if isinstance(tref, dict) else (tref or "")
        data.update(fields)
        data["csrf_token"] = self.take("streams")
        resp = await self.call("POST", f"/stream/{spk}", params={"ajax": 1}, json_body=data)
        return resp

    async def set_timing_ref(self, spk: int, name: str) -> bool:
        resp = await self.edit_stream(spk, timing_ref=name)
        return resp.status == 200

    async def delete_stream(self, spk: int) -> Response:
        tok = await self.token("streams")
        resp = await self.call("DELETE", f"/stream/{spk}/delete", params={"ajax": 1, "csrf_token": tok})
        js = self.js(resp)
        if "csrf" in js:
            self.csrf["streams"] = js["csrf"]
        return resp

    async def set_defaults(self, spk: int, fields: dict) -> Response:
        resp = await self.call("GET", f"/stream/{spk}/defaults")
        tok = _hidden_csrf(resp.text)
        data = dict(fields)
        data["csrf_token"] = tok
        return await self.call("POST", f"/stream/{spk}/defaults", form_body=data)

    # ---------------------------------------------------------------- media
    async def upload(self, spk: int, filename: str, data: bytes, ctype: str = "video/mp4") -> dict | None:
        tok = await self.token("upload", spk)
        resp = await self.call(
            "POST", f"/media/{spk}/blob",
            form_body={"ajax": "1", "stream": str(spk), "submit": "Submit", "csrf_token": tok or ""},
            files=[("file", filename, data, ctype)])
        js = self.js(resp)
        if "csrf_token" in js:
            self.csrf["upload"] = js["csrf_token"]
        if resp.status != 200 or "error" in js:
            return None
        return js

    async def index(self, mfid: int, spk: int | None = None) -> dict | None:
        tok = await self.token("files", spk)
        resp = await self.call("GET", f"/media/index/{mfid}", params={"ajax": 1, "csrf_token": tok or ""})
        js = self.js(resp)
        if "csrf" in js:
            self.csrf["files"] = js["csrf"]
        if resp.status != 200:
            return None
        return js

    async def delete_media(self, spk: int, mfid: int) -> Response:
        tok = await self.token("files", spk)
        resp = await self.call("DELETE", f"/stream/{spk}/{mfid}", params={"ajax": 1, "csrf_token": tok or ""})
        js = self.js(resp)
        if "csrf" in js:
            self.csrf["files"] = js["csrf"]
        return resp

    async def edit_media(self, spk: int, mfid: int, track_id: int, lang: str | None = None) -> Response:
        tok = await self.token("files", spk)
        data = {"track_id": str(track_id), "csrf_token": tok or ""}
        if lang is not None:
            data["lang"] = lang
        return await self.call("POST", f"/stream/{spk}/{mfid}/edit", form_body=data)

    # ---------------------------------------------------------------- keys
    async def add_key(self, kid: str, key: str | None = None) -> Response:
        tok = self.take("kids")
        if tok is None:
            await self.fetch_media_info()
            tok = self.take("kids")
        params = {"kid": kid, "csrf_token": tok or "", "ajax": 1}
        if key is not None:
            params["key"] = key
        resp = await self.call("PUT", "/key", params=params)
        js = self.js(resp)
        if "csrf_token" in js:
            self.csrf["kids"] = js["csrf_token"]
        return resp

    async def delete_key(self, kpk: int) -> Response:
        tok = self.take("kids")
        if tok is None:
            await self.fetch_media_info()
            tok = self.take("kids")
        resp = await self.call("DELETE", f"/key/{kpk}/delete", params={"ajax": 1, "csrf_token": tok or ""})
        js = self.js(resp)
        if "csrf" in js:
            self.csrf["kids"] = js["csrf"]
        return resp

    # ---------------------------------------------------------------- multi-period streams
    async def add_mps(self, model: dict) -> Response:
        tok = await self.token("streams")
        body = dict(model)
        body["csrf_token"] = tok
        return await self.call("PUT", "/api/multi-period-streams/.add", json_body=body, bearer=True)

    async def get_mps(self, name: str) -> dict | None:
        resp = await self.call("GET", f"/api/multi-period-streams/{name}", headers={
            "Content-Type": "application/json"}, bearer=True)
        js = self.js(resp)
        if resp.status != 200:
            return None
        self.csrf.update({"streams": (js.get("csrfTokens") or {}).get("streams")})
        return js

    async def edit_mps(self, name: str, model: dict) -> Response:
        tok = await self.token("streams")
        body = dict(model)
        body["csrf_token"] = tok
        return await self.call("POST", f"/api/multi-period-streams/{name}", json_body=body, bearer=True)

    async def delete_mps(self, name: str) -> Response:
        tok = await self.token("streams")
        return await self.call("DELETE", f"/api/multi-period-streams/{name}",
                               params={"csrf_token": tok or "", "ajax": 1}, bearer=True)


def _hidden_csrf(html: str) -> str:
    import re
    m = re.search(r'name="csrf_token"[^>]*value="([^"]*)"', html)
    if m is None:
        m = re.search(r'value="([^"]*)"[^>]*name="csrf_token"', html)
    if m is None:
        return ""
    import html as _html
    return _html.unescape(m.group(1))
