"""Manager actor (C17, C11): an authorised media user driving the whole management API.

Script ops (object selectors are resolved at run time against the durable state, modulo what exists;
``ghost: true`` addresses a non-existing object):
  auth | add_stream | edit_stream | delete_stream | set_defaults | upload | index | edit_media | delete_media
  add_key | edit_key | delete_key | add_mps | edit_mps | delete_mps | probe | readback | restart | sleep
"""
from __future__ import annotations

import hashlib
import json
import urllib.parse

from .. import forge
from ..api import BASE
from ..oracles import isobmff
from ..sim import NetTimeout
from .intruder import RoleClient, discover_ids

TEMPLATE_MODES = [
    ("hand_made.mpd", "live"), ("hand_made.mpd", "vod"), ("hand_made.mpd", "odvod"), ("manifest_vod_aiv.mpd", "odvod"),
    ("manifest_a.mpd", "live"), ("manifest_a.mpd", "vod"), ("manifest_b.mpd", "vod"), ("manifest_e.mpd", "live"),
    ("manifest_e.mpd", "vod"), ("manifest_h.mpd", "live"), ("manifest_h.mpd", "vod"), ("manifest_i.mpd", "live"),
    ("manifest_i.mpd", "vod"), ("manifest_ef.mpd", "live"), ("manifest_ef.mpd", "vod"), ("manifest_n.mpd", "live"),
    ("manifest_n.mpd", "vod"),
]


def rows(world, table: str) -> list[dict]:
    t = world.table_rows().get(table) or []
    if not t:
        return []
    cols = t[0]
    return [dict(zip(cols, r)) for r in t[1:]]


class Manager(RoleClient):
    kind = "manager"

    def __init__(self, sim, spec) -> None:
        super().__init__(sim, spec)
        self.role = spec.get("role", "media")
        self.uploaded: dict[tuple[str, str], list[dict]] = {}    # (stream dir, file stem) -> upload attempts
        self.observers: list = []
        self.current_op: dict | None = None

    def notify(self, event: str, *args) -> None:
        for ob in self.observers:
            fn = getattr(ob, event, None)
            if fn is not None:
                fn(self, *args)

    def pick(self, items: list, which: int, ghost: bool):
        if ghost or not items:
            return None
        return items[which % len(items)]

    async def run(self) -> None:
        world = self.sim.world
        for step in self.script:
            op = step["op"]
            self.current_op = step
            try:
                if op == "auth":
                    await self.authenticate()
                    await self.api.fetch_media_info()
                elif op == "sleep":
                    await self.sleep_us(int(step["us"]))
                elif op == "restart":
                    self.sim.restart(self.id)
                elif op == "probe":
                    await self.probe(step)
                elif op == "readback":
                    await self.readback(step)
                else:
                    await getattr(self, "op_" + op)(step)
            except NetTimeout:
                pass
            self.current_op = None

    # ------------------------------------------------------------------ operations
    async def op_add_stream(self, st: dict) -> None:
        await self.api.add_stream(st["dir"], st.get("title", st["dir"]), st.get("marlin_la_url", ""),
                                  st.get("playready_la_url", ""))

    async def op_edit_stream(self, st: dict) -> None:
        s = self.pick(rows(self.sim.world, "Stream"), st.get("which", 0), st.get("ghost", False))
        spk = s["pk"] if s else 9999
        fields = {}
        if "title" in st:
            fields["title"] = st["title"]
        if "directory" in st:
            fields["directory"] = st["directory"]
        tr = st.get("timing_ref")
        if tr == "first":
            mfs = [m for m in rows(self.sim.world, "media_file") if s and m["stream"] == s["pk"]]
            fields["timing_ref"] = mfs[st.get("which_file", 0) % len(mfs)]["name"] if mfs else ""
        elif tr == "none":
            fields["timing_ref"] = ""
        elif tr == "bogus":
            fields["timing_ref"] = "no_such_file"
        elif tr == "foreign":
            mfs = [m for m in rows(self.sim.world, "media_file") if s and m["stream"] != s["pk"]]
            fields["timing_ref"] = mfs[0]["name"] if mfs else "no_such_file"
        await self.api.edit_stream(spk, **fields)

    async def op_delete_stream(self, st: dict) -> None:
        s = self.pick(rows(self.sim.world, "Stream"), st.get("which", 0), st.get("ghost", False))
        spk = s["pk"] if s else 9999
        how = st.get("how", "ajax")
        if how == "rest":
            await self.api.call("DELETE", f"/stream/{spk}", params={"ajax": 1})
        elif how == "form":
            tok = await self.api.token("streams")
            await self.api.call("POST", f"/stream/{spk}/delete", form_body={"csrf_token": tok or ""})
        else:
            await self.api.delete_stream(spk)

    async def op_set_defaults(self, st: dict) -> None:
        s = self.pick(rows(self.sim.world, "Stream"), st.get("which", 0), st.get("ghost", False))
        await self.api.set_defaults(s["pk"] if s else 9999, st.get("fields", {}))

    async def op_upload(self, st: dict) -> None:
        s = self.pick(rows(self.sim.world, "Stream"), st.get("which", 0), st.get("ghost", False))
        spk = s["pk"] if s else 9999
        entry = st["file"]
        if isinstance(entry, str):
            from .. import worlds
            fname, data = worlds.file_bytes(entry)
        else:
            fname, data = forge.build(entry["forge"])
        if st.get("truncate"):
            data = data[:max(16, len(data) - int(st["truncate"]))]
        # record the attempt before sending: the response may be lost while the upload took effect
        if s is not None:
            stem = fname.rsplit(".", 1)[0]
            try:
                sf = isobmff.scan_stored(fname, data)
                payloads = [sg.payload_sha for sg in sf.segments]
            except Exception:  # noqa: BLE001
                payloads = None
            self.uploaded.setdefault((s["directory"], stem), []).append(
                {"sha": hashlib.sha1(data).hexdigest(), "payloads": payloads, "size": len(data),
                 "damaged": bool(st.get("truncate"))})
        await self.api.upload(spk, fname, data)

    async def op_index(self, st: dict) -> None:
        m = self.pick(rows(self.sim.world, "media_file"), st.get("which_file", 0), st.get("ghost", False))
        mfid = m["pk"] if m else 9999
        await self.api.index(mfid, m["stream"] if m else None)

    async def op_edit_media(self, st: dict) -> None:
        m = self.pick(rows(self.sim.world, "media_file"), st.get("which_file", 0), st.get("ghost", False))
        if m is None:
            await self.api.edit_media(9999, 9999, st.get("track_id", 5), st.get("lang"))
        else:
            await self.api.edit_media(m["stream"], m["pk"], st.get("track_id", 5), st.get("lang"))

    async def op_delete_media(self, st: dict) -> None:
        m = self.pick(rows(self.sim.world, "media_file"), st.get("which_file", 0), st.get("ghost", False))
        spk, mfid = (m["stream"], m["pk"]) if m else (9999, 9999)
        how = st.get("how", "ajax")
        if how == "form":
            tok = await self.api.token("files", spk if m else None)
            await self.api.call("POST", f"/stream/{spk}/{mfid}/delete", form_body={"csrf_token": tok or ""})
        elif how == "delete-route":
            tok = await self.api.token("files", spk if m else None)
            await self.api.call("DELETE", f"/stream/{spk}/{mfid}/delete", params={"ajax": 1, "csrf_token": tok or ""})
        else:
            await self.api.delete_media(spk, mfid)

    async def op_add_key(self, st: dict) -> None:
        await self.api.add_key(st["kid"], st.get("key"))

    async def op_edit_key(self, st: dict) -> None:
        k = self.pick(rows(self.sim.world, "key"), st.get("which", 0), st.get("ghost", False))
        kpk = k["pk"] if k else 9999
        tok = self.api.take("kids")
        if tok is None:
            await self.api.fetch_media_info()
            tok = self.api.take("kids")
        await self.api.call("POST", f"/key/{kpk}", form_body={
            "csrf_token": tok or "", "hkey": st.get("key", "00" * 16), "new_key": "0",
            "computed": "on" if st.get("computed") else "off"})

    async def op_delete_key(self, st: dict) -> None:
        k = self.pick(rows(self.sim.world, "key"), st.get("which", 0), st.get("ghost", False))
        await self.api.delete_key(k["pk"] if k else 9999)

    def _mps_model(self, st: dict, existing: dict | None = None) -> dict:
        world = self.sim.world
        streams = rows(world, "Stream")
        periods = []
        for i, prd in enumerate(st.get("periods", []), start=1):
            s = self.pick(streams, prd.get("which", 0), prd.get("ghost", False))
            mfs = [m for m in rows(world, "media_file") if s and m["stream"] == s["pk"] and m["track_id"] is not None]
            tracks = []
            seen = set()
            for m in mfs:
                if m["track_id"] in seen:
                    continue
                seen.add(m["track_id"])
                tracks.append({"track_id": m["track_id"], "role": "main", "lang": "und", "encrypted": bool(m["encrypted"])})
            periods.append({"pk": prd.get("pk"), "pid": prd.get("pid", f"p{i}"), "ordering": prd.get("ordering", i),
                            "stream": s["pk"] if s else 9999, "start": prd.get("start", "PT0S"),
                            "duration": prd.get("duration", ""), "tracks": tracks if not prd.get("no_tracks") else []})
        model = {"name": st["name"], "title": st.get("title", "mps title"), "periods": periods}
        if existing is not None:
            model["pk"] = existing["pk"]
        return model

    async def op_add_mps(self, st: dict) -> None:
        await self.api.add_mps(self._mps_model(st))

    async def op_edit_mps(self, st: dict) -> None:
        m = self.pick(rows(self.sim.world, "mp_stream"), st.get("which", 0), st.get("ghost", False))
        if "target" in st:
            m = next((r for r in rows(self.sim.world, "mp_stream") if r["name"] == st["target"]), None)
        name = m["name"] if m else "ghostmps"
        await self.api.get_mps(name)
        model = self._mps_model({**st, "name": st.get("name", name)}, existing=m)
        await self.api.edit_mps(name, model)

    async def op_delete_mps(self, st: dict) -> None:
        m = self.pick(rows(self.sim.world, "mp_stream"), st.get("which", 0), st.get("ghost", False))
        if "target" in st:
            m = next((r for r in rows(self.sim.world, "mp_stream") if r["name"] == st["target"]), None)
        name = m["name"] if m else "ghostmps"
        await self.api.get_mps(name)
        await self.api.delete_mps(name)

    # ------------------------------------------------------------------ liveness / read-back
    async def probe(self, st: dict) -> None:
        """Ask listed streams and multi-period streams for manifests (C17 liveness)."""
        resp = await self.api.call("GET", "/streams", params={"ajax": 1})
        listed = []
        try:
            listed = [s["directory"] for s in resp.json().get("streams", [])]
        except Exception:  # noqa: BLE001
            pass
        n = int(st.get("n", 3))
        for d in listed:
            for _ in range(n):
                tmpl, mode = TEMPLATE_MODES[self.rng.randrange(len(TEMPLATE_MODES))]
                url = BASE + f"/dash/{mode}/{d}/{tmpl}"
                r = await self.request("GET", url)
                self.notify("on_probe", "stream", d, tmpl, mode, url, r)
        resp = await self.api.call("GET", "/api/multi-period-streams", params={"ajax": 1})
        try:
            names = [m["name"] for m in resp.json()]
        except Exception:  # noqa: BLE001
            names = []
        for name in names:
            for _ in range(max(1, n - 1)):
                tmpl = self.rng.choice(["hand_made.mpd", "manifest_a.mpd", "manifest_e.mpd", "manifest_n.mpd"])
                mode = self.rng.choice(["live", "vod"])
                url = BASE + f"/mps/{mode}/{name}/{tmpl}"
                r = await self.request("GET", url)
                self.notify("on_probe", "mps", name, tmpl, mode, url, r)

    async def readback(self, st: dict) -> None:
        """Read every uploaded-and-indexed file back through the on-demand and vod media routes."""
        world = self.sim.world
        streams = {s["pk"]: s for s in rows(world, "Stream")}
        for m in rows(world, "media_file"):
            s = streams.get(m["stream"])
            if s is None or m["rep"] is None:
                continue
            attempts = self.uploaded.get((s["directory"], m["name"]))
            if not attempts:
                continue
            blobs = {b["pk"]: b for b in rows(world, "Blob")}
            b = blobs.get(m["blob"])
            if b is None:
                continue
            path = world.blob_dir / s["directory"] / b["filename"]
            if not path.exists():
                continue
            try:
                stored = isobmff.scan_stored(b["filename"], path.read_bytes())
            except Exception:  # noqa: BLE001
                continue
            shas = [sg.payload_sha for sg in stored.segments]
            # the stored file must carry the payloads of one of the uploads of that name (edits keep payloads)
            rec = next((a for a in reversed(attempts) if a["payloads"] == shas), None)
            if rec is None:
                if any(a.get("damaged") for a in attempts):
                    # a truncated upload that was edited afterwards: what the re-encoder makes of the cut
                    # last fragment is not specified (damaged input), only intact uploads are compared
                    world.probe("c17.readback-skip-damaged-upload")
                    continue
                self.notify("on_readback_unknown", s["directory"], m["name"])
                continue
            size = b["size"]
            url = BASE + f"/dash/odvod/{s['directory']}/{m['name']}.mp4"
            r = await self.request("GET", url, headers={"Range": f"bytes=0-{size - 1}"})
            self.notify("on_readback", s["directory"], m["name"], "odvod", url, r, rec)
            nseg = len(shas)
            if not s.get("timing_reference"):
                continue      # the segment routes need a timing reference; the on-demand route above does not
            for n in ([1, nseg] if nseg > 1 else [1]):
                # an encrypted file is only served when the request selects a DRM system
                url = BASE + f"/dash/vod/{s['directory']}/{m['name']}/{n}.mp4" + ("?drm=all" if m.get("encrypted") else "")
                r = await self.request("GET", url)
                self.notify("on_readback", s["directory"], m["name"], f"vod#{n}", url, r, rec)
