"""VodPlayer: walks a static manifest end to end (every enumerated segment, then one past the end) and
issues ranged requests (C06, C13).  Script ops:
  {"op": "manifest", "path": "/dash/vod/bbb/hand_made.mpd", "q": {...}}
  {"op": "walk", "reps": 2}               fetch init + every media segment + last+1 of up to N representations
  {"op": "ranges", "n": 12}               Range requests against segment / on-demand URLs
  {"op": "sleep"|"jump"|"restart"}
"""
from __future__ import annotations

import math
import urllib.parse
from fractions import Fraction

from .. import clock as simclock
from ..oracles import mpd as mpdlib
from ..sim import NetTimeout
from .player import BASE, Doc, Player


class VodPlayer(Player):
    kind = "vodplayer"

    async def run(self) -> None:
        for step in self.script:
            op = step["op"]
            if op == "manifest":
                q = step.get("q") or {}
                url = BASE + step["path"] + ("?" + urllib.parse.urlencode(q) if q else "")
                await self.fetch_manifest(url, step.get("tag"))
            elif op == "walk":
                await self.walk(step)
            elif op == "ranges":
                await self.ranges(step)
            elif op == "sleep":
                await self.sleep_us(int(step["us"]))
            elif op == "jump":
                await self.sim.net.clock_event(self, int(step["us"]))
            elif op == "restart":
                self.sim.restart(self.id)
            else:
                raise ValueError(f"unknown vodplayer op {op}")

    def enumerate_rep(self, m: mpdlib.Mpd, period, aset, rep) -> dict | None:
        """What the manifest enumerates for one Representation (independent client-side computation)."""
        tm = rep.template
        pdur = period.duration if period.duration is not None else m.mpd_duration
        if rep.seglist is not None and rep.seglist.get("media_ranges") is not None:
            url = rep.base_urls[0]
            return {"kind": "list", "url": url, "init_range": rep.seglist["init_range"],
                    "ranges": rep.seglist["media_ranges"], "timescale": rep.seglist["timescale"],
                    "duration": rep.seglist["duration"]}
        if tm is None or tm.media is None:
            return None
        out = {"kind": "template", "init": mpdlib.segment_url(rep, tm.initialization) if tm.initialization else None,
               "segments": [], "timescale": tm.timescale, "start_number": tm.start_number}
        if tm.timeline is not None:
            for i, e in enumerate(tm.timeline):
                out["segments"].append({"url": mpdlib.segment_url(rep, tm.media, time=e.t, number=tm.start_number + i),
                                        "t": e.t, "d": e.d, "n": tm.start_number + i})
            last = tm.timeline[-1] if tm.timeline else None
            if last is not None:
                out["past_end"] = mpdlib.segment_url(rep, tm.media, time=last.t + last.d,
                                                     number=tm.start_number + len(tm.timeline))
            out["mode"] = "time"
        elif tm.duration and pdur is not None:
            n = math.ceil(Fraction(pdur) * tm.timescale / tm.duration)
            for k in range(n):
                out["segments"].append({"url": mpdlib.segment_url(rep, tm.media, number=tm.start_number + k),
                                        "n": tm.start_number + k, "t": None, "d": None})
            out["past_end"] = mpdlib.segment_url(rep, tm.media, number=tm.start_number + n)
            out["mode"] = "number"
        else:
            return None
        return out

    async def walk(self, step: dict) -> None:
        doc = self.current
        if doc is None or doc.mpd is None:
            return
        m = doc.mpd
        todo = []
        for period in m.periods:
            for aset in period.asets:
                for rep in aset.reps:
                    todo.append((period, aset, rep))
        cap = int(step.get("reps", 3))
        if len(todo) > cap:
            self.rng.shuffle(todo)
            todo = sorted(todo[:cap], key=lambda x: x[2].id)
        for period, aset, rep in todo:
            enum = self.enumerate_rep(m, period, aset, rep)
            if enum is None:
                continue
            result = {"doc": doc, "period": period, "aset": aset, "rep": rep, "enum": enum, "init": None,
                      "segments": [], "past_end": None}
            try:
                if enum["kind"] == "template":
                    if enum["init"]:
                        result["init"] = await self.get(enum["init"])
                    for seg in enum["segments"]:
                        result["segments"].append((seg, await self.get(seg["url"])))
                    if enum.get("past_end"):
                        result["past_end"] = await self.get(enum["past_end"])
                else:
                    if enum["init_range"]:
                        result["init"] = await self.get(enum["url"], headers={"Range": f"bytes={enum['init_range']}"})
                    for rg in enum["ranges"]:
                        result["segments"].append(({"range": rg}, await self.get(enum["url"], headers={"Range": f"bytes={rg}"})))
            except NetTimeout:
                continue
            self.notify("on_walk", result)

    async def ranges(self, step: dict) -> None:
        """C13: ranged requests against one media-segment URL and one on-demand URL of the current manifest."""
        doc = self.current
        if doc is None or doc.mpd is None:
            return
        m = doc.mpd
        urls = []
        for period in m.periods:
            for aset in period.asets:
                for rep in aset.reps:
                    enum = self.enumerate_rep(m, period, aset, rep)
                    if enum is None:
                        continue
                    if enum["kind"] == "template" and enum["segments"]:
                        seg = enum["segments"][self.rng.randrange(len(enum["segments"]))]
                        urls.append(("segment", seg["url"]))
                    elif enum["kind"] == "list":
                        urls.append(("ondemand", enum["url"]))
        if not urls:
            return
        self.rng.shuffle(urls)
        for kind, url in urls[:int(step.get("urls", 2))]:
            try:
                full = await self.get(url, headers={"Range": "bytes=0-"}) if kind == "ondemand" else await self.get(url)
                plain = await self.get(url)
            except NetTimeout:
                continue
            if full.fault and full.fault.startswith("net.truncate"):
                # the transfer was cut: resume from the cut point, then fetch a reference copy
                k = len(full.body)
                try:
                    tail = await self.get(url, headers={"Range": f"bytes={k}-"})
                    ref = await self.get(url, headers={"Range": "bytes=0-"}) if kind == "ondemand" else await self.get(url)
                except NetTimeout:
                    continue
                self.notify("on_truncated", kind, url, full, tail, ref)
                full = ref
            if plain.fault and plain.fault.startswith("net.truncate"):
                try:
                    plain = await self.get(url)
                except NetTimeout:
                    continue
            length = len(full.body) if full.status in (200, 206) else None
            self.notify("on_range_base", kind, url, full, plain)
            if length is None:
                continue
            specs = list(step.get("headers") or [])
            for tmpl in step.get("templates") or []:
                specs.append(_eval_range(tmpl, length).replace("H", str(length // 2)))
            for hdr in specs:
                try:
                    resp = await self.get(url, headers={"Range": hdr})
                except NetTimeout:
                    continue
                self.notify("on_range", kind, url, hdr, resp, full)
            # fault-driven part: a truncated transfer is resumed with an open-ended range
            for k in step.get("resume_at") or []:
                k = k % (length + 1)
                try:
                    resp = await self.get(url, headers={"Range": f"bytes={k}-"})
                except NetTimeout:
                    continue
                self.notify("on_resume", kind, url, k, resp, full)


def _eval_range(hdr: str, length: int) -> str:
    """Replace {L-1}, {L}, {L+1} style placeholders."""
    import re

    def sub(m):
        return str(eval(m.group(1), {"__builtins__": {}}, {"L": length}))  # noqa: S307 - fixed grammar below
    return re.sub(r"\{(L(?:[+-]\d+)?)\}", sub, hdr)
