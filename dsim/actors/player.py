"""Player actor: fetches manifests (full, refreshed, patched) and the segments they advertise.

The script is explicit (spec-driven).  Observers (oracles) are notified of every document and segment
response; the actor itself judges nothing.

Script ops:
  {"op": "manifest", "path": "/dash/live/bbb/hand_made.mpd", "q": {..}, "tag": "T1"}
  {"op": "refresh"}                       re-fetch the last manifest URL (same query)
  {"op": "patch"}                         fetch the PatchLocation of the current document
  {"op": "segments", "select": "all"|"edges"|"sample", "max": 60, "init": true}
  {"op": "sleep", "us": n} / {"op": "jump", "us": n} / {"op": "restart"} / {"op": "freeze"}
"""
from __future__ import annotations

import urllib.parse
from dataclasses import dataclass, field
from fractions import Fraction

from .. import clock as simclock
from ..oracles import mpd as mpdlib
from ..sim import Actor, NetTimeout
from ..world import Response, SERVER_HOST

BASE = f"http://{SERVER_HOST}"


@dataclass
class Doc:
    url: str
    fetched_us: int
    resp: Response
    mpd: mpdlib.Mpd | None
    tag: str | None = None
    patched_from: "Doc | None" = None
    error: str | None = None


@dataclass
class SegRef:
    period: mpdlib.PeriodInfo
    aset: mpdlib.ASet
    rep: mpdlib.Rep
    kind: str                 # "init" | "time" | "number"
    url: str
    number: int | None = None
    time: int | None = None
    duration: int | None = None
    index: int | None = None  # position within the advertised list
    count: int | None = None  # size of the advertised list
    doc: Doc | None = None


class Player(Actor):
    kind = "player"

    def __init__(self, sim, spec) -> None:
        super().__init__(sim, spec)
        self.docs: list[Doc] = []
        self.current: Doc | None = None
        self.observers: list = []
        self.script = spec.get("script", [])
        self.patch_url: str | None = None      # PatchLocation of the document model the client holds

    def notify(self, event: str, *args) -> None:
        for ob in self.observers:
            fn = getattr(ob, event, None)
            if fn is not None:
                fn(self, *args)

    # ------------------------------------------------------------------ script interpreter
    async def run(self) -> None:
        for step in self.script:
            op = step["op"]
            if op == "manifest":
                q = step.get("q") or {}
                url = BASE + step["path"]
                if q:
                    url += "?" + urllib.parse.urlencode(q)
                await self.fetch_manifest(url, step.get("tag"), headers=step.get("headers"))
            elif op == "refresh":
                if self.current is not None:
                    await self.fetch_manifest(self.current.url, step.get("tag"))
            elif op == "patch":
                await self.fetch_patch()
            elif op == "segments":
                await self.fetch_segments(step)
            elif op == "sleep":
                await self.sleep_us(int(step["us"]))
            elif op == "jump":
                await self.sim.net.clock_event(self, int(step["us"]))
            elif op == "goto":
                delta = int(step["us"]) - simclock.CLOCK.us
                if delta > 0:
                    await self.sim.net.clock_event(self, delta)
            elif op == "restart":
                self.sim.restart(self.id)
            else:
                raise ValueError(f"unknown player op {op}")

    async def fetch_manifest(self, url: str, tag: str | None, headers: dict | None = None) -> Doc | None:
        try:
            resp = await self.get(url, headers=headers)
        except NetTimeout:
            return None
        doc = Doc(url=url, fetched_us=simclock.CLOCK.us, resp=resp, mpd=None, tag=tag)
        if resp.status == 200:
            try:
                doc.mpd = mpdlib.parse(resp.body, url)
            except Exception as err:  # noqa: BLE001 - reported by observers (C05)
                doc.error = f"{type(err).__name__}: {err}"
        prev = self.current
        self.docs.append(doc)
        if resp.status == 200:
            self.current = doc
            if self.patch_url is None and doc.mpd is not None and doc.mpd.patch_locations:
                self.patch_url = urllib.parse.urljoin(doc.url, doc.mpd.patch_locations[0][0])
        self.notify("on_manifest", doc, prev)
        return doc

    async def fetch_patch(self) -> None:
        cur = self.current
        if cur is None or self.patch_url is None:
            return
        url = self.patch_url
        try:
            resp = await self.get(url)
        except NetTimeout:
            return
        self.notify("on_patch", cur, url, resp)

    # ------------------------------------------------------------------ advertised segments
    def advertised(self, doc: Doc, now_us: int | None = None) -> list[SegRef]:
        """Segments the document makes addressable at ``now_us`` (default: the fetch instant)."""
        m = doc.mpd
        out: list[SegRef] = []
        if m is None:
            return out
        t_now = Fraction(doc.fetched_us if now_us is None else now_us, 1_000_000)
        for period in m.periods:
            pstart = period.start or Fraction(0)
            for aset in period.asets:
                for rep in aset.reps:
                    tm = rep.template
                    if tm is None:
                        continue
                    if tm.initialization:
                        out.append(SegRef(period, aset, rep, "init",
                                          mpdlib.segment_url(rep, tm.initialization), doc=doc))
                    if tm.media is None:
                        continue
                    if m.type != "dynamic":
                        if not self.spec.get("static_media"):
                            continue
                        # a static presentation: the whole track (every timeline entry, or the numbers the Period
                        # duration admits as a client counts them)
                        if tm.timeline is not None:
                            for i, e in enumerate(tm.timeline):
                                out.append(SegRef(
                                    period, aset, rep, "time",
                                    mpdlib.segment_url(rep, tm.media, time=e.t, number=tm.start_number + i),
                                    time=e.t, duration=e.d, index=i, count=len(tm.timeline), doc=doc))
                        elif tm.duration:
                            total = period.duration if period.duration is not None else m.mpd_duration
                            if total is not None:
                                d = Fraction(tm.duration, tm.timescale)
                                cnt = -((-(total / d).numerator) // (total / d).denominator)
                                for k in range(cnt):
                                    out.append(SegRef(
                                        period, aset, rep, "number",
                                        mpdlib.segment_url(rep, tm.media, number=tm.start_number + k),
                                        number=tm.start_number + k, index=k, count=cnt, doc=doc))
                        continue
                    ast = Fraction(m.ast_us, 1_000_000)
                    if tm.timeline is not None:
                        lst = []
                        for e in tm.timeline:
                            end = ast + pstart + Fraction(e.t + e.d - tm.pto, tm.timescale)
                            if end <= t_now:
                                lst.append(e)
                        for i, e in enumerate(lst):
                            out.append(SegRef(
                                period, aset, rep, "time",
                                mpdlib.segment_url(rep, tm.media, time=e.t, number=tm.start_number + i),
                                time=e.t, duration=e.d, index=i, count=len(lst), doc=doc))
                    elif tm.duration:
                        d = Fraction(tm.duration, tm.timescale)
                        tsbd = m.tsbd if m.tsbd is not None else None
                        # availability window of number n (ISO/IEC 23009-1 5.3.9.5.3):
                        #   start(n) = AST + PeriodStart + (n - startNumber + 1) * d
                        #   end(n)   = start(n) + d + TSBD
                        rel = t_now - ast - pstart
                        k_max = int(rel / d) - 1          # largest k = n - startNumber with (k+1)d <= rel
                        if tsbd is None:
                            k_min = 0
                        else:
                            # (k+2) d + tsbd >= rel  <=>  k >= (rel - tsbd)/d - 2
                            lo = (rel - tsbd) / d - 2
                            k_min = max(0, -((-lo.numerator) // lo.denominator))  # ceil
                        ks = list(range(k_min, k_max + 1))
                        for i, k in enumerate(ks):
                            n = tm.start_number + k
                            out.append(SegRef(
                                period, aset, rep, "number",
                                mpdlib.segment_url(rep, tm.media, number=n),
                                number=n, index=i, count=len(ks), doc=doc))
        return out

    async def fetch_segments(self, step: dict) -> None:
        doc = self.current
        if doc is None or doc.mpd is None:
            return
        refs = self.advertised(doc)
        select = step.get("select", "all")
        cap = int(step.get("max", 80))
        chosen: list[SegRef] = []
        by_rep: dict[tuple, list[SegRef]] = {}
        for r in refs:
            if r.kind == "init":
                if step.get("init", True):
                    chosen.append(r)
                continue
            by_rep.setdefault((id(r.period), id(r.aset), r.rep.id), []).append(r)
        for key in by_rep:
            lst = by_rep[key]
            if select == "edges" and len(lst) > 4:
                lst = lst[:2] + lst[-2:]
            elif select == "sample" and len(lst) > 6:
                mid = [lst[self.rng.randrange(2, len(lst) - 2)] for _ in range(2)]
                lst = lst[:2] + mid + lst[-2:]
            chosen += lst
        if len(chosen) > cap:
            # keep every init and an even spread, always including both edges of each list
            inits = [c for c in chosen if c.kind == "init"]
            media = [c for c in chosen if c.kind != "init"]
            edge = [c for c in media if c.index in (0, 1, (c.count or 1) - 1, (c.count or 2) - 2)]
            rest = [c for c in media if c not in edge]
            self.rng.shuffle(rest)
            chosen = (inits + edge + rest)[:cap]
        reps_filter = step.get("reps")
        for ref in chosen:
            if reps_filter and ref.rep.id not in reps_filter:
                continue
            try:
                resp = await self.get(ref.url)
            except NetTimeout:
                continue
            self.notify("on_segment", ref, resp)
