"""Intruder and CSRF-probe actors (C15).

Intruder: a client holding the credentials of one role (anonymous, guest-JWT, user, media, admin).  It first
harvests every CSRF token, cookie and JWT that role can legitimately obtain, then fires mutation attempts:
recipes for every state-changing handler (so that a request would take effect if only authorisation were
missing) and a generic sweep over the route table discovered at run time x {GET,HEAD,POST,PUT,DELETE}.
It judges nothing: the world-state oracle attributes every durable change to the request that caused it.

CsrfProbe: an authorised (media) client that manipulates CSRF tokens (reuse, cross-service, cross-cookie,
tamper, replay after restart / clock jump / duplicated request) on operations with unique visible effects.
"""
from __future__ import annotations

import hashlib
import html as _html
import json
import re
import urllib.parse

from .. import clock as simclock
from ..api import ApiClient, BASE, form, multipart
from ..sim import Actor, NetTimeout
from ..world import CookieJar, Response

CREDENTIALS = {
    "admin": ("admin", "adm1nPassw0rd"),
    "media": ("media", "m3d1aPassw0rd"),
    "user": ("user", "us3rPassw0rd"),
}

HIDDEN_RE = re.compile(r'<input[^>]*name="csrf_token"[^>]*>', re.I)
VALUE_RE = re.compile(r'value="([^"]*)"')


class RoleClient(Actor):
    """Common base: API client over SimNet plus token bookkeeping."""

    def __init__(self, sim, spec) -> None:
        super().__init__(sim, spec)
        self.role: str = spec.get("role", "anonymous")
        self.api = ApiClient(self._send)
        self.tokens: dict[str, list[str]] = {}       # service -> tokens not yet used by this client
        self.token_info: dict[str, dict] = {}        # token -> provenance
        self.script = spec.get("script", [])
        self.last_request: dict | None = None

    async def _send(self, method: str, url: str, headers=None, body=None, **kw) -> Response:
        try:
            resp = await self.request(method, url, headers=headers, body=body)
        except NetTimeout:
            return Response(status=0, headers=[], body=b"", fault="timeout")
        self.harvest(url, resp)
        return resp

    # ------------------------------------------------------------------ harvesting
    def remember(self, service: str, token: str | None) -> None:
        if not token or not isinstance(token, str):
            return
        if token in self.token_info:
            return
        self.token_info[token] = {"service": service, "cookie": self.jar.cookies.get("csrf", ("", None))[0],
                                  "used": 0, "issued_seq": self.sim.world.seq}
        self.tokens.setdefault(service, []).append(token)

    PAGE_SERVICE = [
        (re.compile(r"^/stream/\d+/defaults"), "streams"), (re.compile(r"^/stream/\d+/delete"), "streams"),
        (re.compile(r"^/streams/add"), "streams"), (re.compile(r"^/stream/\d+/\d+/delete"), "files"),
        (re.compile(r"^/stream/\d+/\d+/edit"), "files"), (re.compile(r"^/stream/\d+/\d+"), "files"),
        (re.compile(r"^/media/inspect"), "files"), (re.compile(r"^/key"), "keys"),
        (re.compile(r"^/stream/\d+$"), "streams"),
    ]
    JSON_KEY_SERVICE = {"kids": "keys", "keys": "keys", "files": "files", "streams": "streams", "stream": "streams",
                        "upload": "upload"}

    def harvest(self, url: str, resp: Response) -> None:
        path = urllib.parse.urlsplit(url).path
        ctype = resp.header("Content-Type", "") or ""
        if "json" in ctype:
            try:
                self._harvest_json(resp.json(), path)
            except (ValueError, UnicodeDecodeError):
                pass
        elif "html" in ctype:
            service = next((s for rx, s in self.PAGE_SERVICE if rx.search(path)), None)
            for m in HIDDEN_RE.finditer(resp.text):
                v = VALUE_RE.search(m.group(0))
                if v and service:
                    self.remember(service, _html.unescape(v.group(1)))

    def _harvest_json(self, val, path: str) -> None:
        if isinstance(val, dict):
            for k, v in val.items():
                lk = k.lower()
                if lk in ("csrf_tokens", "csrftokens") and isinstance(v, dict):
                    for name, tok in v.items():
                        self.remember(self.JSON_KEY_SERVICE.get(name, name), tok)
                elif lk in ("csrf_token", "csrf", "csrftoken") and isinstance(v, str):
                    service = "login" if "/api/login" in path else None
                    if service is None:
                        if "/key" in path:
                            service = "keys"
                        elif "/media/index" in path or re.search(r"/stream/\d+/\d+", path):
                            service = "files"
                        elif "/media/" in path:
                            service = "upload"
                        else:
                            service = "streams"
                    self.remember(service, v)
                elif lk == "accesstoken":
                    tok = v.get("jwt") if isinstance(v, dict) else v
                    if isinstance(tok, str):
                        self.api.access_token = tok
                elif lk == "refreshtoken":
                    tok = v.get("jwt") if isinstance(v, dict) else v
                    if isinstance(tok, str):
                        self.api.refresh_token = tok
                else:
                    self._harvest_json(v, path)
        elif isinstance(val, list):
            for v in val:
                self._harvest_json(v, path)

    def take(self, service: str) -> str | None:
        lst = self.tokens.get(service) or []
        if lst:
            tok = lst.pop(0)
            return tok
        return None

    async def authenticate(self) -> None:
        if self.role in CREDENTIALS:
            await self.api.login(*CREDENTIALS[self.role])
        elif self.role == "guest-jwt":
            await self.api.guest_token()

    async def harvest_pages(self, ids: dict) -> None:
        """Fetch every page/JSON this role may read that hands out tokens."""
        spk = ids.get("spk", 1)
        mfid = ids.get("mfid", 1)
        pages = ["/streams?ajax=1", f"/stream/{spk}?ajax=1", f"/stream/{spk}/defaults", f"/stream/{spk}/{mfid}?ajax=1",
                 "/media/inspect", "/api/refresh/csrf", f"/stream/{spk}/delete", "/streams/add", "/key",
                 f"/stream/{spk}/{mfid}/edit", f"/stream/{spk}/{mfid}/delete"]
        if ids.get("kpk"):
            pages.append(f"/key/{ids['kpk']}/delete?ajax=1")
        if ids.get("mps"):
            pages.append(f"/api/multi-period-streams/{ids['mps']}?ajax=1")
        if self.role in ("anonymous", "guest-jwt"):
            pages.insert(0, "/api/refresh/access")
        for p in pages:
            hdrs = {}
            if self.api.access_token and p.startswith("/api/"):
                hdrs["Authorization"] = f"Bearer {self.api.access_token}"
            await self._send("GET", BASE + p, headers=hdrs)


def discover_ids(world) -> dict:
    """Primary keys / names of existing objects, read straight from the durable state."""
    rows = world.table_rows()
    ids: dict = {}

    def first(table: str, col: str):
        t = rows.get(table)
        if t and len(t) > 1:
            return t[1][t[0].index(col)]
        return None
    ids["spk"] = first("Stream", "pk")
    ids["stream_dir"] = first("Stream", "directory")
    ids["mfid"] = first("media_file", "pk")
    ids["mf_name"] = first("media_file", "name")
    ids["kpk"] = first("key", "pk")
    ids["mps"] = first("mp_stream", "name")
    ids["ppk"] = first("period", "pk")
    users = rows.get("User") or []
    if users:
        cols = users[0]
        ids["users"] = {r[cols.index("username")]: r[cols.index("pk")] for r in users[1:]}
    return ids


class Intruder(RoleClient):
    kind = "intruder"

    async def run(self) -> None:
        world = self.sim.world
        for step in self.script:
            op = step["op"]
            if op == "auth":
                await self.authenticate()
            elif op == "harvest":
                await self.harvest_pages(discover_ids(world))
            elif op == "recipe":
                await self.recipe(step["name"], step.get("variant", 0), discover_ids(world))
            elif op == "sweep":
                await self.sweep(step["rule"], step["method"], step.get("variant", 0), discover_ids(world))
            elif op == "sleep":
                await self.sleep_us(int(step["us"]))
            elif op == "restart":
                self.sim.restart(self.id)
            else:
                raise ValueError(f"unknown intruder op {op}")

    def _auth_headers(self) -> dict:
        h = {}
        if self.api.access_token:
            h["Authorization"] = f"Bearer {self.api.access_token}"
        return h

    async def tok(self, service: str, ids: dict) -> str:
        t = self.take(service)
        if t is None:
            await self.harvest_pages(ids)
            t = self.take(service)
        return t or "missing-token"

    async def recipe(self, name: str, variant: int, ids: dict) -> None:
        """One well-formed mutation attempt; would succeed if only authorisation were missing."""
        spk, mfid, kpk, mps = ids.get("spk") or 1, ids.get("mfid") or 1, ids.get("kpk") or 1, ids.get("mps") or "mps1"
        uniq = f"{self.id}{self.msg_index}"
        H = self._auth_headers()
        users = ids.get("users") or {}
        other = users.get("admin" if self.role != "admin" else "user", 1)
        own = users.get(self.role) or users.get("_AnonymousUser_", 0)
        if name == "add-stream":
            body = {"title": f"t {uniq}", "directory": f"d{uniq}"[:28], "marlin_la_url": "", "playready_la_url": "",
                    "csrf_token": await self.tok("streams", ids)}
            if variant % 2:
                data, ct = form(body)
                await self._send("POST", BASE + "/streams/add", headers={"Content-Type": ct, **H}, body=data)
            else:
                await self._send("PUT", BASE + "/streams/add",
                                 headers={"Content-Type": "application/json", **H}, body=json.dumps(body).encode())
        elif name == "edit-stream":
            body = {"title": f"edited {uniq}", "directory": ids.get("stream_dir") or "x", "marlin_la_url": "",
                    "playready_la_url": "", "timing_ref": "", "csrf_token": await self.tok("streams", ids)}
            if variant % 2:
                data, ct = form(body)
                await self._send("POST", BASE + f"/stream/{spk}", headers={"Content-Type": ct, **H}, body=data)
            else:
                await self._send("POST", BASE + f"/stream/{spk}?ajax=1",
                                 headers={"Content-Type": "application/json", **H}, body=json.dumps(body).encode())
        elif name == "delete-stream":
            t = await self.tok("streams", ids)
            if variant % 3 == 0:
                await self._send("DELETE", BASE + f"/stream/{spk}/delete?ajax=1&csrf_token={urllib.parse.quote(t)}",
                                 headers=H)
            elif variant % 3 == 1:
                data, ct = form({"csrf_token": t})
                await self._send("POST", BASE + f"/stream/{spk}/delete", headers={"Content-Type": ct, **H}, body=data)
            else:
                await self._send("DELETE", BASE + f"/stream/{spk}?ajax=1", headers=H)
        elif name == "edit-defaults":
            data, ct = form({"csrf_token": await self.tok("streams", ids), "depth": str(100 + variant),
                             "leeway": "33", "ajax": "0"})
            await self._send("POST", BASE + f"/stream/{spk}/defaults", headers={"Content-Type": ct, **H}, body=data)
        elif name == "upload":
            from .. import forge
            fname, fdata = forge.build({"name": f"up{uniq}"[:20], "kind": "video", "timescale": 1000,
                                        "durations": [1000, 1000]})
            body, ct = multipart({"ajax": "1", "stream": str(spk), "submit": "Submit",
                                  "csrf_token": await self.tok("upload", ids)},
                                 [("file", fname, fdata, "video/mp4")], f"b{uniq}")
            await self._send("POST", BASE + f"/media/{spk}/blob", headers={"Content-Type": ct, **H}, body=body)
        elif name == "delete-media":
            t = urllib.parse.quote(await self.tok("files", ids))
            if variant % 3 == 0:
                await self._send("DELETE", BASE + f"/stream/{spk}/{mfid}?ajax=1&csrf_token={t}", headers=H)
            elif variant % 3 == 1:
                await self._send("DELETE", BASE + f"/stream/{spk}/{mfid}/delete?ajax=1&csrf_token={t}", headers=H)
            else:
                data, ct = form({"csrf_token": urllib.parse.unquote(t)})
                await self._send("POST", BASE + f"/stream/{spk}/{mfid}/delete", headers={"Content-Type": ct, **H},
                                 body=data)
        elif name == "edit-media":
            data, ct = form({"csrf_token": await self.tok("files", ids), "track_id": str(40 + variant % 5),
                             "lang": "fr"})
            await self._send("POST", BASE + f"/stream/{spk}/{mfid}/edit", headers={"Content-Type": ct, **H}, body=data)
        elif name == "index-media":
            t = urllib.parse.quote(await self.tok("files", ids))
            await self._send("GET", BASE + f"/media/index/{mfid}?ajax=1&csrf_token={t}", headers=H)
        elif name == "add-key":
            kid = hashlib.sha1(uniq.encode()).hexdigest()[:8] * 4
            t = await self.tok("keys", ids)
            if variant % 2:
                data, ct = form({"csrf_token": t, "hkid": kid, "hkey": "00112233445566778899aabbccddeeff",
                                 "new_key": "1"})
                await self._send("POST", BASE + "/key", headers={"Content-Type": ct, **H}, body=data)
            else:
                await self._send("PUT", BASE + f"/key?ajax=1&kid={kid}&csrf_token={urllib.parse.quote(t)}", headers=H)
        elif name == "edit-key":
            data, ct = form({"csrf_token": await self.tok("keys", ids), "hkey": "ffeeddccbbaa99887766554433221100",
                             "new_key": "0"})
            await self._send("POST", BASE + f"/key/{kpk}", headers={"Content-Type": ct, **H}, body=data)
        elif name == "delete-key":
            t = await self.tok("keys", ids)
            if variant % 2:
                data, ct = form({"csrf_token": t})
                await self._send("POST", BASE + f"/key/{kpk}/delete", headers={"Content-Type": ct, **H}, body=data)
            else:
                await self._send("DELETE", BASE + f"/key/{kpk}/delete?ajax=1&csrf_token={urllib.parse.quote(t)}",
                                 headers=H)
        elif name == "add-mps":
            body = {"name": f"m{uniq}"[:30], "title": f"title {uniq}", "periods": [],
                    "csrf_token": await self.tok("streams", ids)}
            await self._send("PUT", BASE + "/api/multi-period-streams/.add",
                             headers={"Content-Type": "application/json", **H}, body=json.dumps(body).encode())
        elif name == "edit-mps":
            body = {"name": mps, "title": f"title {uniq}", "periods": [], "pk": None,
                    "csrf_token": await self.tok("streams", ids)}
            await self._send("POST", BASE + f"/api/multi-period-streams/{mps}",
                             headers={"Content-Type": "application/json", **H}, body=json.dumps(body).encode())
        elif name == "delete-mps":
            t = urllib.parse.quote(await self.tok("streams", ids))
            await self._send("DELETE", BASE + f"/api/multi-period-streams/{mps}?ajax=1&csrf_token={t}", headers=H)
        elif name == "add-user":
            body = {"username": f"u{uniq}"[:30], "email": f"{uniq}@x.test", "password": "pw123456",
                    "confirmPassword": "pw123456", "adminGroup": True, "mediaGroup": True}
            await self._send("PUT", BASE + "/api/users", headers={"Content-Type": "application/json", **H},
                             body=json.dumps(body).encode())
        elif name == "edit-other-user":
            body = {"username": "renamed", "email": f"e{uniq}@x.test", "mustChange": False, "password": "hacked12",
                    "confirmPassword": "hacked12", "adminGroup": True}
            await self._send("POST", BASE + f"/api/users/{other}", headers={"Content-Type": "application/json", **H},
                             body=json.dumps(body).encode())
        elif name == "edit-own-user":
            body = {"username": self.role, "email": f"own{uniq}@x.test", "mustChange": False, "adminGroup": True,
                    "mediaGroup": True}
            await self._send("POST", BASE + f"/api/users/{own}", headers={"Content-Type": "application/json", **H},
                             body=json.dumps(body).encode())
        elif name == "delete-user":
            await self._send("DELETE", BASE + f"/api/users/{other}", headers=H)
        else:
            raise ValueError(f"unknown recipe {name}")

    async def sweep(self, rule_index: int, method: str, variant: int, ids: dict) -> None:
        """Generic request for the rule_index-th routing rule (discovered at run time)."""
        rules = sorted(self.sim.world.app.url_map.iter_rules(), key=lambda r: (r.rule, r.endpoint))
        rule = rules[rule_index % len(rules)]
        values = {}
        for arg in rule.arguments:
            values[arg] = {
                "spk": ids.get("spk") or 1, "mfid": ids.get("mfid") or 1, "kpk": ids.get("kpk") or 1,
                "upk": (ids.get("users") or {}).get("user", 1), "mps_name": ids.get("mps") or "nomps",
                "stream": ids.get("stream_dir") or "bbb", "manifest": "hand_made.mpd", "mode": "live",
                "filename": ids.get("mf_name") or "x", "ext": "mp4", "segment_num": "1", "segment_time": 0,
                "segnum": 1, "ppk": ids.get("ppk") or 1, "publish": 1700000000, "method": "iso",
                "username": "user", "path": "x",
            }.get(arg, "1")
        try:
            adapter = self.sim.world.app.url_map.bind("sim.dashlive.test")
            path = adapter.build(rule.endpoint, values)
        except Exception:  # noqa: BLE001
            return
        services = ["streams", "files", "keys", "upload"]
        tok = self.take(services[variant % len(services)]) or "none"
        payload = {"csrf_token": tok, "title": f"sweep{self.msg_index}", "directory": f"sw{self.msg_index}",
                   "name": f"sw{self.msg_index}", "periods": [], "username": f"sw{self.msg_index}",
                   "email": f"sw{self.msg_index}@x.test", "password": "pw123456", "confirmPassword": "pw123456",
                   "track_id": "7", "lang": "de", "hkid": "ab" * 16, "hkey": "cd" * 16, "new_key": "1",
                   "marlin_la_url": "", "playready_la_url": "", "timing_ref": "", "kids": [], "type": "temporary"}
        url = BASE + path
        sep = "&" if "?" in url else "?"
        H = self._auth_headers()
        if variant % 3 == 0:
            url += f"{sep}ajax=1&csrf_token={urllib.parse.quote(tok)}&kid={'ef' * 16}"
        if method in ("POST", "PUT"):
            if variant % 2 == 0:
                await self._send(method, url, headers={"Content-Type": "application/json", **H},
                                 body=json.dumps(payload).encode())
            else:
                data, ct = form({k: v for k, v in payload.items() if isinstance(v, str)})
                await self._send(method, url, headers={"Content-Type": ct, **H}, body=data)
        else:
            await self._send(method, url, headers=H)


RECIPES = ["add-stream", "edit-stream", "delete-stream", "edit-defaults", "upload", "delete-media", "edit-media",
           "index-media", "add-key", "edit-key", "delete-key", "add-mps", "edit-mps", "delete-mps", "add-user",
           "edit-other-user", "edit-own-user", "delete-user"]


class CsrfProbe(RoleClient):
    """Authorised client that manipulates CSRF tokens; every attempt records the token's provenance."""

    kind = "csrfprobe"

    def __init__(self, sim, spec) -> None:
        super().__init__(sim, spec)
        self.role = spec.get("role", "media")
        self.used: list[tuple[str, str]] = []      # (service, token) already submitted once
        self.alt_jar = CookieJar()                 # a second browser session of the same user
        self.alt_tokens: dict[str, list[str]] = {}
        self.attempts: list[dict] = []

    async def run(self) -> None:
        world = self.sim.world
        for step in self.script:
            op = step["op"]
            if op == "auth":
                await self.authenticate()
            elif op == "harvest":
                await self.harvest_pages(discover_ids(world))
            elif op == "alt-session":
                await self.alt_session(discover_ids(world))
            elif op == "use":
                if step.get("stale_cookies"):
                    # a replaying party is not a browser: it keeps presenting cookies past their Max-Age
                    for name, (val, _) in list(self.jar.cookies.items()):
                        self.jar.cookies[name] = (val, None)
                    world.fired("client.stale_cookies")
                await self.use(step["target"], step["token"], discover_ids(world))
            elif op == "sleep":
                await self.sleep_us(int(step["us"]))
            elif op == "jump":
                await self.sim.net.clock_event(self, int(step["us"]))
            elif op == "restart":
                self.sim.restart(self.id)
            else:
                raise ValueError(f"unknown csrfprobe op {op}")

    async def alt_session(self, ids: dict) -> None:
        """Log in again with a separate cookie jar and harvest tokens bound to that other csrf cookie."""
        main_jar, main_tokens, main_info = self.jar, self.tokens, self.token_info
        self.jar, self.tokens = self.alt_jar, {}
        try:
            await self.authenticate()
            await self.harvest_pages(ids)
        finally:
            self.alt_tokens = self.tokens
            self.jar, self.tokens = main_jar, main_tokens

    TARGET_SERVICE = {"edit-stream": "streams", "add-key": "keys", "edit-defaults": "streams", "add-stream": "streams",
                      "add-mps": "streams"}

    async def use(self, target: str, mode: str, ids: dict) -> None:
        service = self.TARGET_SERVICE[target]
        info: dict = {"target": target, "mode": mode, "service": service, "valid": False}
        token: str | None = None
        if mode == "fresh":
            token = self.take(service)
            if token is None:
                await self.harvest_pages(ids)
                token = self.take(service)
            info["valid"] = token is not None
        elif mode == "reuse":
            cands = [t for s, t in self.used if s == service]
            token = cands[-1] if cands else None
        elif mode == "cross-service":
            other = next((s for s in ("files", "upload", "keys", "streams") if s != service and self.tokens.get(s)), None)
            token = self.take(other) if other else None
            info["from_service"] = other
        elif mode == "cross-cookie":
            lst = self.alt_tokens.get(service) or []
            token = lst.pop(0) if lst else None
        elif mode in ("tamper-char", "tamper-trunc", "salt-swap"):
            token = self.take(service)
            if token is None:
                await self.harvest_pages(ids)
                token = self.take(service)
            if token is not None:
                raw = urllib.parse.unquote(token)
                if mode == "tamper-char":
                    i = 12 % len(raw)
                    raw = raw[:i] + ("A" if raw[i] != "A" else "B") + raw[i + 1:]
                elif mode == "tamper-trunc":
                    raw = raw[:-3]
                else:
                    other = self.take(service)
                    if other is None:
                        await self.harvest_pages(ids)
                        other = self.take(service)
                    if other is not None:
                        raw = urllib.parse.unquote(other)[:8] + raw[8:]
                token = urllib.parse.quote(raw)
        if token is None:
            return
        if mode == "fresh":
            self.used.append((service, token))
        info["token"] = token
        uniq = f"{self.id}x{len(self.attempts)}"
        info["marker"] = uniq
        self.attempts.append(info)
        self.last_request = info
        spk = ids.get("spk") or 1
        H = {"Authorization": f"Bearer {self.api.access_token}"} if self.api.access_token else {}
        if target == "edit-stream":
            body = {"title": f"csrf {uniq}", "directory": ids.get("stream_dir") or "x", "marlin_la_url": "",
                    "playready_la_url": "", "timing_ref": "", "csrf_token": token}
            await self._send("POST", BASE + f"/stream/{spk}?ajax=1",
                             headers={"Content-Type": "application/json"}, body=json.dumps(body).encode())
        elif target == "add-stream":
            body = {"title": f"csrf {uniq}", "directory": f"c{uniq}"[:28], "marlin_la_url": "", "playready_la_url": "",
                    "csrf_token": token}
            await self._send("PUT", BASE + "/streams/add", headers={"Content-Type": "application/json"},
                             body=json.dumps(body).encode())
        elif target == "add-key":
            kid = (f"{len(self.attempts):04x}" + hashlib.sha1(uniq.encode()).hexdigest()[:4]) * 4
            await self._send("PUT", BASE + f"/key?ajax=1&kid={kid}&csrf_token={urllib.parse.quote(token)}")
        elif target == "edit-defaults":
            data, ct = form({"csrf_token": token, "depth": str(200 + len(self.attempts))})
            await self._send("POST", BASE + f"/stream/{spk}/defaults", headers={"Content-Type": ct}, body=data)
        elif target == "add-mps":
            body = {"name": f"c{uniq}"[:30], "title": f"csrf {uniq}", "periods": [], "csrf_token": token}
            await self._send("PUT", BASE + "/api/multi-period-streams/.add",
                             headers={"Content-Type": "application/json", **H}, body=json.dumps(body).encode())
        self.last_request = None
