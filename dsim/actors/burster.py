"""Burster: a manager whose script can contain bursts - a few management operations issued at the same instant and
served concurrently under the pre-emptive scheduler (dsim.preempt / dsim.burst).

  {"op": "burst", "requests": [<manager op>, <manager op>, ...], "sched": <int>, "same_token": false}

The operations of a burst are *prepared* with the manager's ordinary code (tokens are harvested with real
requests, the final mutating request of each operation is captured instead of sent), then all captured requests
are handed to run_burst().  With "same_token" the second request carries the CSRF token of the first one (a
double submit).
"""
from __future__ import annotations

import json
import re
import urllib.parse

from .. import burst as burstlib
from .. import clock as simclock
from ..world import Response
from .manager import Manager

_TOKEN_QS = re.compile(r"(csrf_token=)([^&]*)")


class Burster(Manager):
    kind = "burster"

    def __init__(self, sim, spec) -> None:
        super().__init__(sim, spec)
        self.capturing = False
        self.captured: list[dict] = []
        # replay every sequential order after a burst (linearizability measure)?  Checks that only judge the
        # responses of the burst switch it off: the replays cost several server restarts per burst
        self.check_orders = bool(spec.get("check_orders", True))

    async def _send(self, method: str, url: str, headers=None, body=None, **kw) -> Response:
        mutating = method != "GET" or "/media/index/" in url or getattr(self, "capture_get", False)
        if self.capturing and mutating:
            hdrs = dict(headers or {})
            ck = self.jar.header(simclock.CLOCK.us)
            if ck and "Cookie" not in hdrs:
                hdrs["Cookie"] = ck
            self.captured.append({"method": method, "url": url, "headers": hdrs, "body": body})
            return Response(status=0, headers=[], body=b"", fault="captured")
        return await super()._send(method, url, headers=headers, body=body, **kw)

    async def op_get(self, st: dict) -> None:
        """A player's request (manifest, initialization or media segment of a listed stream) as part of a burst."""
        from .manager import rows, TEMPLATE_MODES
        from ..api import BASE
        world = self.sim.world
        streams = rows(world, "Stream")
        s = self.pick(streams, st.get("which", 0), False)
        if s is None:
            return
        what = st.get("what", "manifest")
        if what == "manifest":
            tmpl, mode = TEMPLATE_MODES[st.get("tmpl", 0) % len(TEMPLATE_MODES)]
            url = BASE + f"/dash/{mode}/{s['directory']}/{tmpl}"
        else:
            mfs = [m for m in rows(world, "media_file") if m["stream"] == s["pk"]]
            if not mfs:
                return
            m = mfs[st.get("which_file", 0) % len(mfs)]
            tail = "init.mp4" if what == "init" else f"{1 + st.get('n', 0) % 3}.mp4"
            url = BASE + f"/dash/vod/{s['directory']}/{m['name']}/{tail}" + ("?drm=all" if m.get("encrypted") else "")
        self.capture_get = True
        try:
            await self._send("GET", url)
        finally:
            self.capture_get = False

    async def op_crash(self, st: dict) -> None:
        """One management operation whose request dies at a chosen seam; the server restarts afterwards."""
        sub = st["request"]
        self.captured = []
        self.capturing = True
        try:
            await getattr(self, "op_" + sub["op"])(sub)
        finally:
            self.capturing = False
        if not self.captured:
            self.sim.world.probe("crash.nothing-to-send")
            return
        req = dict(self.captured[-1])
        req["recipe"] = sub
        outcome = burstlib.run_crash(self.sim.world, self.id, req, int(st.get("at", 1)))
        self.api.csrf.clear()
        self.notify("on_crash", st, req, outcome)

    async def op_burst(self, st: dict) -> None:
        reqs: list[dict] = []
        for sub in st["requests"]:
            self.captured = []
            self.capturing = True
            try:
                await getattr(self, "op_" + sub["op"])(sub)
            finally:
                self.capturing = False
            if self.captured:
                req = dict(self.captured[-1])
                req["recipe"] = sub
                reqs.append(req)
        if len(reqs) < 2:
            self.sim.world.probe("burst.too-few-requests")
            return
        if st.get("same_token"):
            tok = token_of(reqs[0])
            if tok is not None:
                for i in range(1, len(reqs)):
                    reqs[i] = with_token(reqs[i], tok)
        outcome = burstlib.run_burst(self.sim.world, self.id, reqs, int(st.get("sched", 0)),
                                     forced=st.get("forced"), check_orders=self.check_orders)
        # the tokens handed out inside the burst belong to executions that were rolled back or replayed: forget them
        self.api.csrf.clear()
        self.last_burst = reqs
        self.notify("on_burst", st, reqs, outcome)

    async def op_replay(self, st: dict) -> None:
        """One request of the last burst is sent again, on its own, with the token and cookie it carried then."""
        reqs = getattr(self, "last_burst", None)
        if not reqs:
            return
        req = reqs[st.get("which", 0) % len(reqs)]
        before = burstlib.csrf_records(self.sim.world)
        resp = burstlib.serve(self.sim.world, self.id, req, threaded=False)
        self.sim.world.record(self.id, req["method"], req["url"], resp.status, resp.body, "replay")
        after = burstlib.csrf_records(self.sim.world)
        self.notify("on_replay", st, req, resp, before, after)


def token_of(req: dict) -> str | None:
    m = _TOKEN_QS.search(urllib.parse.urlsplit(req["url"]).query)
    if m:
        return urllib.parse.unquote_plus(m.group(2))
    body = req.get("body") or b""
    ctype = (req.get("headers") or {}).get("Content-Type", "")
    try:
        if "json" in ctype:
            return json.loads(body).get("csrf_token")
        if "x-www-form-urlencoded" in ctype:
            return dict(urllib.parse.parse_qsl(body.decode())).get("csrf_token")
        if "multipart" in ctype:
            m = re.search(rb'name="csrf_token"\r\n\r\n([^\r]*)\r\n', body)
            return m.group(1).decode() if m else None
    except (ValueError, AttributeError, UnicodeDecodeError):
        return None
    return None


def with_token(req: dict, tok: str) -> dict:
    out = dict(req)
    sp = urllib.parse.urlsplit(req["url"])
    if _TOKEN_QS.search(sp.query):
        q = _TOKEN_QS.sub(lambda m: m.group(1) + urllib.parse.quote_plus(tok), sp.query)
        out["url"] = urllib.parse.urlunsplit((sp.scheme, sp.netloc, sp.path, q, sp.fragment))
        return out
    body = req.get("body") or b""
    ctype = (req.get("headers") or {}).get("Content-Type", "")
    try:
        if "json" in ctype:
            js = json.loads(body)
            js["csrf_token"] = tok
            out["body"] = json.dumps(js).encode()
        elif "x-www-form-urlencoded" in ctype:
            pairs = [(k, tok if k == "csrf_token" else v) for k, v in urllib.parse.parse_qsl(body.decode(), keep_blank_values=True)]
            out["body"] = urllib.parse.urlencode(pairs).encode()
        elif "multipart" in ctype:
            out["body"] = re.sub(rb'(name="csrf_token"\r\n\r\n)[^\r]*(\r\n)', lambda m: m.group(1) + tok.encode() + m.group(2), body)
    except (ValueError, AttributeError, UnicodeDecodeError):
        pass
    return out
