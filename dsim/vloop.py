"""Virtual-time asyncio event loop driven by the SimClock.

``time()`` reads the SimClock; when no callback is ready the clock jumps to the earliest timer instead
of blocking in select().  Real file descriptors are never registered by simulated code, so select(0) is
a no-op.  ``run_in_executor`` runs the function inline (no thread ever decides anything).
"""
from __future__ import annotations

import asyncio
import concurrent.futures
import heapq

from . import clock as simclock


class InlineExecutor(concurrent.futures.Executor):
    """Executor whose submit() runs the callable immediately on the calling thread."""

    def submit(self, fn, /, *args, **kwargs):
        fut: concurrent.futures.Future = concurrent.futures.Future()
        try:
            fut.set_result(fn(*args, **kwargs))
        except BaseException as exc:  # noqa: BLE001 - mirrored into the future like a real pool
            if isinstance(exc, (KeyboardInterrupt, SystemExit)):
                raise
            fut.set_exception(exc)
        return fut

    def shutdown(self, wait=True, *, cancel_futures=False):
        return None


class VirtualLoop(asyncio.SelectorEventLoop):
    def __init__(self) -> None:
        super().__init__()
        self.steps = 0
        self.max_steps = 0
        self.idle_hook = None
        # loop time is relative to the SimClock value at loop creation so that float precision stays
        # far below a microsecond whatever the simulated date is
        self.base_us = simclock.CLOCK.us
        self._clock_resolution = 1e-6
        self._default_executor = InlineExecutor()

    def time(self) -> float:
        return (simclock.CLOCK.us - self.base_us) / 1e6

    def at_us(self, us: int) -> float:
        """Loop time value for an absolute SimClock instant."""
        return (us - self.base_us) / 1e6

    def run_in_executor(self, executor, func, *args):
        if executor is None or not isinstance(executor, InlineExecutor):
            executor = InlineExecutor()
        return asyncio.wrap_future(executor.submit(func, *args), loop=self)

    def _next_timer_us(self):
        while self._scheduled and self._scheduled[0]._cancelled:
            handle = heapq.heappop(self._scheduled)
            handle._scheduled = False
            self._timer_cancelled_count -= 1
        if not self._scheduled:
            return None, None
        when = self._scheduled[0]._when
        return when, self.base_us + int(round(when * 1e6))

    def _run_once(self) -> None:
        self.steps += 1
        if self.max_steps and self.steps > self.max_steps:
            raise RuntimeError(f"VirtualLoop exceeded {self.max_steps} iterations")
        # Quiescence: every task has run until it blocked.  The scheduler now picks the next event:
        # either the earliest timer or the earliest pending network message (idle_hook = SimNet).
        while not self._ready and not self._stopping:
            when, timer_us = self._next_timer_us()
            hook = self.idle_hook
            msg_us = hook.next_time_us() if hook is not None else None
            if msg_us is not None and (timer_us is None or msg_us <= timer_us):
                if msg_us > simclock.CLOCK.us:
                    simclock.CLOCK.us = msg_us
                hook.deliver_one()
                continue
            if timer_us is None:
                raise RuntimeError("VirtualLoop deadlock: nothing ready, no timer, no message pending")
            if timer_us > simclock.CLOCK.us:
                simclock.CLOCK.us = timer_us
            while self.time() < when:  # float rounding guard
                simclock.CLOCK.us += 1
            break
        super()._run_once()


def run(coro_fn, *, max_steps: int = 2_000_000):
    """Run ``coro_fn()`` to completion on a fresh VirtualLoop and return its result."""
    loop = VirtualLoop()
    loop.max_steps = max_steps
    asyncio.set_event_loop(loop)
    try:
        return loop.run_until_complete(coro_fn())
    finally:
        try:
            pending = [t for t in asyncio.all_tasks(loop) if not t.done()]
            for t in pending:
                t.cancel()
            if pending:
                loop.run_until_complete(asyncio.gather(*pending, return_exceptions=True))
        finally:
            asyncio.set_event_loop(None)
            loop.close()
