"""Seeded option-vector generation from the option registry discovered at run time.

The names and enumerated choices come from ``OptionsRepository.get_dash_options()`` (so a new option is
picked up without editing the harness); this module only adds type-appropriate generated values for the
options whose value space is open (integers, ISO date-times, URLs, DRM location subsets, event schedules).
"""
from __future__ import annotations

import datetime as _dt
import random

from . import clock as simclock

DRM_SYSTEMS = ["clearkey", "marlin", "playready"]
DRM_LOCATIONS = ["cenc", "moov", "pro"]


def registry() -> dict[str, object]:
    from dashlive.server.options.repository import OptionsRepository
    return {o.cgi_name: o for o in OptionsRepository.get_dash_options()}


def choices_of(opt) -> list[str]:
    out: list[str] = []
    for ch in (opt.cgi_choices or ()):
        val = ch[1] if isinstance(ch, tuple) else ch
        out.append("none" if val is None else str(val))
    return out


def iso_from_us(us: int, offset_min: int = 0, frac: bool = False) -> str:
    d = simclock.EPOCH + _dt.timedelta(microseconds=us)
    if offset_min:
        tz = _dt.timezone(_dt.timedelta(minutes=offset_min))
        d = d.astimezone(tz)
        txt = d.strftime("%Y-%m-%dT%H:%M:%S")
        if frac and d.microsecond:
            txt += ".%06d" % d.microsecond
        sign = "+" if offset_min > 0 else "-"
        off = abs(offset_min)
        return f"{txt}{sign}{off // 60:02d}:{off % 60:02d}"
    txt = d.strftime("%Y-%m-%dT%H:%M:%S")
    if frac and d.microsecond:
        txt += ".%06d" % d.microsecond
    return txt + "Z"


def gen_drm(rng: random.Random, allow_moov: bool = True) -> str:
    r = rng.random()
    if r < 0.15:
        return "all"
    systems = [s for s in DRM_SYSTEMS if rng.random() < 0.5] or [rng.choice(DRM_SYSTEMS)]
    parts = []
    for s in systems:
        if rng.random() < 0.5:
            parts.append(s)
        else:
            locs = [loc for loc in DRM_LOCATIONS if rng.random() < 0.5 and (allow_moov or loc != "moov")]
            if not locs:
                parts.append(s)
            else:
                parts.append(s + "-" + "-".join(locs))
    return ",".join(parts)


def gen_start(rng: random.Random, now_us: int, young_ok: bool = True) -> str:
    r = rng.random()
    if r < 0.45:
        return rng.choice(["year", "today", "month", "epoch", "now"])
    # explicit ISO instant <= now with any UTC offset
    ages = [3600, 86400, 7 * 86400, 365 * 86400, 20 * 365 * 86400, 61 * 365 * 86400]
    if young_ok:
        ages = [1, 5, 30, 61, 600] + ages
    age_s = rng.choice(ages)
    age_us = rng.randrange(int(age_s * 0.5e6), int(age_s * 1e6) + 1)
    if rng.random() < 0.15:
        # ages at which a decode time (age x track timescale) crosses a field-width boundary
        width = rng.choice([31, 32, 32, 33])
        ts = rng.choice([240, 1000, 44100, 48000, 90000])
        age_us = max(1_000_000, (1 << width) * 1_000_000 // ts + rng.randrange(-90_000_000, 90_000_001))
    ast = max(now_us - age_us, 1_000_000)
    ast -= ast % 1_000_000 if rng.random() < 0.8 else 0
    off = rng.choice([0, 0, 0, 60, -300, 330, 765, -720])
    return iso_from_us(ast, off, frac=True)


def gen_event_opts(rng: random.Random, kinds: list[str]) -> dict[str, str]:
    """Event schedules.  The interval is at least 0.1 s of wall time so that a segment carries a bounded
    number of events (a denser schedule is legal but makes one request cost minutes of CPU)."""
    q: dict[str, str] = {"events": ",".join(kinds)}
    for k in kinds:
        ts = 100
        if rng.random() < 0.5:
            ts = rng.choice([1, 10, 100, 1000, 90000, 48000, 7, 1_000_000, 44100])
            q[f"{k}__timescale"] = str(ts)
        if rng.random() < 0.6 or ts > 1000:
            # (the default interval is a tick count: with a fine timescale it would mean thousands of events per segment)
            secs = rng.choice([0.1, 0.25, 0.4, 1, 1.5, 4, 7, 10, 40])
            q[f"{k}__interval"] = str(max(1, int(round(secs * ts))))
        elif ts < 10:
            q[f"{k}__interval"] = str(rng.choice([1, 2, 4]))
        if rng.random() < 0.5:
            q[f"{k}__start"] = str(int(rng.choice([0, 0.01, 0.5, 3.99, 40]) * ts))
        if rng.random() < 0.5:
            q[f"{k}__count"] = str(rng.choice([0, 1, 2, 5, 40]))
        if rng.random() < 0.4:
            q[f"{k}__duration"] = str(max(1, int(rng.choice([0.01, 0.5, 2, 10]) * ts)))
        if rng.random() < 0.5:
            q[f"{k}__inband"] = rng.choice(["1", "0"])
        if rng.random() < 0.4:
            q[f"{k}__version"] = rng.choice(["0", "1"])
    return q


def live_vector(rng: random.Random, now_us: int, manifest: str, *, richness: float = 0.5,
                patch_ok: bool = True, encrypted_ok: bool = True, events_ok: bool = True,
                young_ok: bool = True, force: dict | None = None) -> dict[str, str]:
    """Option vector for a live manifest request of the given template."""
    from dashlive.server.manifests import manifest_map
    mft = manifest_map[manifest]
    feats = mft.features
    q: dict[str, str] = {}

    def maybe(p: float) -> bool:
        return rng.random() < p * richness * 2

    if maybe(0.5):
        q["depth"] = str(rng.choice([5, 8, 13, 20, 30, 45, 60, 120, 300, 1800, 3600]))
    if maybe(0.5):
        q["start"] = gen_start(rng, now_us, young_ok)
    if "minimumUpdatePeriod" in feats and maybe(0.4):
        q["mup"] = str(rng.choice([-1, 0, 1, 2, 3, 4, 7, 8, 30, 61]))
    if maybe(0.25):
        q["leeway"] = str(rng.choice([16, 16, 20, 30, 60, 120, 0, 2, 5, 9]))
    if "segmentTimeline" in feats and not mft.segment_timeline and maybe(0.6):
        q["timeline"] = rng.choice(["1", "1", "0"])
    if "useBaseUrls" in feats and maybe(0.4):
        q["base"] = rng.choice(["1", "0"])
    if "abr" in feats and maybe(0.3):
        q["abr"] = rng.choice(["1", "0"])
    if "audioCodec" in feats and maybe(0.3):
        q["acodec"] = rng.choice(["mp4a", "ec-3", "any"])
    if "utcMethod" in feats and maybe(0.3):
        q["time"] = rng.choice(["direct", "head", "http-ntp", "iso", "ntp", "sntp", "xsd"])
    if encrypted_ok and "drmSelection" in feats and mft.restrictions.get("drm") != {"none"} and maybe(0.35):
        q["drm"] = gen_drm(rng)
        if "playready" in q["drm"] or q["drm"] == "all":
            if rng.random() < 0.4:
                q["playready__version"] = rng.choice(["1.0", "2.0", "3.0", "4.0"])
            if rng.random() < 0.3:
                q["playready__piff"] = rng.choice(["1", "0"])
        if rng.random() < 0.15:
            q["bugs"] = "saio"
    if events_ok and "eventTypes" in feats and maybe(0.3):
        kinds = rng.choice([["ping"], ["scte35"], ["ping", "scte35"]])
        q.update(gen_event_opts(rng, kinds))
    if patch_ok and "patch" in feats and maybe(0.4):
        q["patch"] = "1"
    if force:
        q.update(force)
    bound_listed_events(q)
    return q


def bound_listed_events(q: dict[str, str], limit: int = 400) -> None:
    """An out-of-band schedule without a count lists every event of the time-shift window in the manifest: keep
    window / interval below ``limit`` events (a longer list is legal, but one manifest then costs seconds of CPU and
    the run trips the wall-clock watchdog instead of finishing deterministically)."""
    for k in (q.get("events") or "").split(","):
        if not k or q.get(f"{k}__inband") != "0" or q.get(f"{k}__count", "0") != "0":
            continue
        try:
            ts = int(q.get(f"{k}__timescale", "100"))
            interval = int(q.get(f"{k}__interval", "1000"))
            # without an explicit depth the stream's stored default applies (up to 1800 s in the worlds used)
            depth = int(q["depth"]) if "depth" in q else 1800
        except ValueError:
            continue
        if depth * ts > limit * interval:
            q[f"{k}__interval"] = str(-(-depth * ts // limit))


def qs(q: dict[str, str]) -> str:
    import urllib.parse
    return urllib.parse.urlencode(q)
