"""Self-tests of the simulator itself.

selftest-determinism: every run index is executed three times - twice in different worker processes
with its own PYTHONHASHSEED and once more under a different PYTHONHASHSEED - and the trace digests,
violation signatures and oracle-check counters must agree.  Exit 0 when all agree.
"""
from __future__ import annotations

import importlib
import json
import os
import sys
import threading
import time

from . import runner


def determinism(props: list[str], verif_seed: int, per_prop: int, tier: str = "quick") -> int:
    jobs = [(p, i) for p in props for i in range(per_prop)]
    results: dict[tuple, list] = {}
    lock = threading.Lock()
    errors: list[str] = []
    nthreads = int(os.environ.get("DSIM_WORKERS", 12))
    # three passes: (hashseed = idx%4, hashseed = idx%4 in another process, hashseed = (idx+1)%4)
    plans = []
    for variant in range(3):
        for hs in range(4):
            sel = [(p, i) for (p, i) in jobs if ((i + (1 if variant == 2 else 0)) % 4) == hs]
            if sel:
                plans.append((variant, hs, sel))

    def drive(plan) -> None:
        variant, hs, sel = plan
        try:
            w = runner.WorkerProc(hs, tag=f"selftest-{variant}-{hs}")
            w.wait_ready()
        except runner.WorkerDied as err:
            with lock:
                errors.append(str(err))
            return
        try:
            for p, i in sel:
                res = w.call({"cmd": "gen_run", "prop": p, "verif_seed": verif_seed, "tier": tier, "index": i})
                out = res.get("out") or {}
                key = (p, i)
                fp = (out.get("digest"), tuple(sorted(v["signature"] for v in out.get("violations", []))),
                      json.dumps(out.get("checks"), sort_keys=True), out.get("harness_error"))
                with lock:
                    results.setdefault(key, []).append((variant, hs, fp))
        except runner.WorkerDied as err:
            with lock:
                errors.append(str(err))
        finally:
            w.close()

    sem = threading.Semaphore(nthreads)

    def guarded(plan) -> None:
        with sem:
            drive(plan)
    threads = [threading.Thread(target=guarded, args=(pl,), daemon=True) for pl in plans]
    t0 = time.monotonic()
    for t in threads:
        t.start()
    for t in threads:
        t.join()
    bad = 0
    hash_sensitive: dict[str, int] = {}
    for key, lst in sorted(results.items()):
        fps = {fp for _, _, fp in lst}
        by_hs: dict[int, set] = {}
        for _, hs, fp in lst:
            by_hs.setdefault(hs, set()).add(fp)
        verdicts = {fp[1:] for fp in fps}          # signatures, oracle-check counters, harness error
        if len(lst) != 3 or any(len(v) > 1 for v in by_hs.values()) or len(verdicts) != 1:
            # two processes with the same PYTHONHASHSEED disagree, or the verdict itself depends on the hash seed
            bad += 1
            print(f"NONDETERMINISTIC {key}: {lst}")
        elif len(fps) != 1:
            # same verdict and counters, another request order / body under another PYTHONHASHSEED: the code under
            # test iterates sets.  The hash seed is part of every replay file, so this is recorded, not a failure.
            hash_sensitive[key[0]] = hash_sensitive.get(key[0], 0) + 1
        elif lst[0][2][3]:
            bad += 1
            print(f"HARNESS ERROR {key}: {lst[0][2][3][:500]}")
    print(f"determinism: {len(results)} runs x3 (two processes with the run's PYTHONHASHSEED, one with another), "
          f"{bad} disagreements, {len(errors)} worker errors, {time.monotonic() - t0:.1f}s")
    print(f"traces that differ only under another PYTHONHASHSEED (verdict and counters equal): {hash_sensitive}")
    for e in errors:
        print("ERROR", e)
    return 0 if (bad == 0 and not errors and results) else 2


def main(which: str, verif_seed: int) -> int:
    props = os.environ.get("DSIM_PROPS", "").split(",") if os.environ.get("DSIM_PROPS") else None
    if props is None:
        man = json.load(open(runner.VERIF / "MANIFEST.json"))
        props = [c["property_id"] for c in man["checks"]]
    per = int(os.environ.get("DSIM_SELFTEST_N", 40))
    if which == "selftest-determinism":
        return determinism(props, verif_seed, per)
    print(f"unknown selftest {which}")
    return 2
