"""Stand-in for python-dotenv: the simulator always passes config= to create_app."""


def load_dotenv(*args, **kwargs):
    return False
