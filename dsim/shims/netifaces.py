"""Stand-in for netifaces: only consulted when app.debug and wss=True."""
AF_INET = 2


def interfaces():
    return []


def ifaddresses(name):
    return {}
