"""Stand-in for asgiref.sync (Flask needs it for the one `async def` view).

The coroutine is driven synchronously.  dash-live's only async view awaits something only when it is asked
to fetch a remote URL through a thread pool; that path needs real network I/O and is reported as
unsupported by the simulator instead of being run on a real thread."""
import functools


def async_to_sync(func):
    @functools.wraps(func)
    def wrapper(*args, **kwargs):
        coro = func(*args, **kwargs)
        try:
            coro.send(None)
        except StopIteration as stop:
            return stop.value
        coro.close()
        raise RuntimeError("dsim asgiref shim: the async view suspended (real I/O is not simulated)")
    return wrapper


def sync_to_async(func, *a, **k):  # pragma: no cover
    async def wrapper(*args, **kwargs):
        return func(*args, **kwargs)
    return wrapper
