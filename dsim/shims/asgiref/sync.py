"""Stand-in for asgiref.sync (Flask needs it for the one `async def` view)."""
import asyncio
import functools


def async_to_sync(func):
    @functools.wraps(func)
    def wrapper(*args, **kwargs):
        loop = asyncio.new_event_loop()
        try:
            return loop.run_until_complete(func(*args, **kwargs))
        finally:
            loop.close()
    return wrapper


def sync_to_async(func, *a, **k):  # pragma: no cover
    async def wrapper(*args, **kwargs):
        return func(*args, **kwargs)
    return wrapper
