"""Stand-in for SQLAlchemy-JSONField (not installed in the sandbox).

The real package stores JSON as text on SQLite; that is all dash-live uses."""
import json
from sqlalchemy import types


class JSONField(types.TypeDecorator):
    impl = types.Text
    cache_ok = True

    def __init__(self, enforce_string=False, enforce_unicode=False,
                 json=json, json_type=None, *args, **kwargs):
        self.__json = json
        self.__enforce_unicode = enforce_unicode
        super().__init__(*args, **kwargs)

    def process_bind_param(self, value, dialect):
        if value is None:
            return None
        return self.__json.dumps(value, ensure_ascii=not self.__enforce_unicode)

    def process_result_value(self, value, dialect):
        if value is None:
            return None
        return self.__json.loads(value)


def mutable_json_field(*args, **kwargs):  # pragma: no cover
    return JSONField(*args, **kwargs)
