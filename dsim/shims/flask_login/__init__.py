"""Minimal stand-in for Flask-Login 0.6.3 covering exactly what dash-live uses.

Follows the real package: the logged-in user's id lives in ``session['_user_id']``,
``current_user`` is a LocalProxy that loads it through ``user_loader`` once per request,
and a ``current_user`` template context processor is registered.  "Remember me" cookies
are not implemented (treated as a plain session login)."""
from flask import current_app, g, has_request_context, session
from werkzeug.local import LocalProxy

__version__ = "0.6.3-dsim-shim"


class UserMixin:
    @property
    def is_active(self):
        return True

    @property
    def is_authenticated(self):
        return self.is_active

    @property
    def is_anonymous(self):
        return False

    def get_id(self):
        return str(self.id)


class AnonymousUserMixin:
    @property
    def is_authenticated(self):
        return False

    @property
    def is_active(self):
        return False

    @property
    def is_anonymous(self):
        return True

    def get_id(self):
        return None


class LoginManager:
    def __init__(self, app=None, add_context_processor=True):
        self.anonymous_user = AnonymousUserMixin
        self._user_callback = None
        if app is not None:
            self.init_app(app, add_context_processor)

    def init_app(self, app, add_context_processor=True):
        app.login_manager = self
        if add_context_processor:
            app.context_processor(lambda: dict(current_user=_get_user()))

    def user_loader(self, callback):
        self._user_callback = callback
        return callback

    def _load_user(self):
        user = None
        user_id = session.get("_user_id")
        if user_id is not None and self._user_callback is not None:
            user = self._user_callback(user_id)
        if user is None:
            user = self.anonymous_user()
        g._login_user = user
        return user


def _get_user():
    if has_request_context():
        if "_login_user" not in g:
            current_app.login_manager._load_user()
        return g._login_user
    return None


current_user = LocalProxy(lambda: _get_user())


def login_user(user, remember=False, duration=None, force=False, fresh=True):
    if not force and not user.is_active:
        return False
    session["_user_id"] = user.get_id()
    session["_fresh"] = fresh
    g._login_user = user
    return True


def logout_user():
    session.pop("_user_id", None)
    session.pop("_fresh", None)
    g._login_user = current_app.login_manager.anonymous_user()
    return True


def login_required(func):  # pragma: no cover - dash-live has its own decorator
    return func
