"""Process bootstrap for simulator workers: import paths, shims, clock, seeded randomness, globals snapshot.

Everything here happens once per worker process.  No file under /repo is modified; every seam is a
name patched from the outside (the way the repository's own tests mock time).
"""
from __future__ import annotations

import os
import random
import sys
from pathlib import Path

VERIF_DIR = Path(__file__).resolve().parent.parent
SHIMS = Path(__file__).resolve().parent / "shims"
REPO = Path(os.environ.get("VERIF_REPO", "/repo")).resolve()

_STATE: dict = {}


class SeededSecrets:
    """Replacement for the functions of ``secrets``/``uuid.uuid4`` dash-live (and JWT) call."""

    def __init__(self) -> None:
        self.rng = random.Random(0)
        self.draws = 0

    def reseed(self, seed: int) -> None:
        self.rng = random.Random(seed)
        self.draws = 0

    def token_bytes(self, nbytes=None):
        if nbytes is None:
            nbytes = 32
        self.draws += 1
        return self.rng.getrandbits(8 * nbytes).to_bytes(nbytes, "big") if nbytes else b""

    def token_hex(self, nbytes=None):
        return self.token_bytes(nbytes).hex()

    def token_urlsafe(self, nbytes=None):
        import base64
        return base64.urlsafe_b64encode(self.token_bytes(nbytes)).rstrip(b"=").decode("ascii")

    def choice(self, seq):
        self.draws += 1
        return seq[self.rng.randrange(len(seq))]

    def randbelow(self, n):
        self.draws += 1
        return self.rng.randrange(n)

    def uuid4(self):
        import uuid
        return uuid.UUID(int=self.rng.getrandbits(128), version=4)


SECRETS = SeededSecrets()


def bootstrap() -> dict:
    """Idempotent.  Returns a dict describing what was patched (for evidence)."""
    if _STATE:
        return _STATE
    for p in (str(SHIMS), str(REPO)):
        if p in sys.path:
            sys.path.remove(p)
    sys.path.insert(0, str(REPO))
    sys.path.insert(1, str(SHIMS))
    os.environ.pop("SQLALCHEMY_DATABASE_URI", None)
    os.environ.setdefault("TZ", "UTC")

    import logging
    logging.disable(logging.CRITICAL)

    import secrets
    import uuid
    import dashlive
    if not Path(dashlive.__file__).resolve().is_relative_to(REPO):
        raise RuntimeError(f"dashlive imported from {dashlive.__file__}, expected under {REPO}")
    import dashlive.server.app as app_mod
    # the validator and option modules are imported lazily by some checks; import the common ones now so
    # that the datetime scan sees them
    import dashlive.server.requesthandler.media_management  # noqa: F401
    import dashlive.server.requesthandler.multi_period_streams  # noqa: F401
    import dashlive.mpeg.dash.validator  # noqa: F401
    import flask_jwt_extended.tokens  # noqa: F401
    import jwt.api_jwt  # noqa: F401

    from . import clock as simclock
    patched = simclock.install()

    # the database's own clock: server_default=func.now() is CURRENT_TIMESTAMP inside SQLite (C code, real time).
    # Compile it to a user function that reads the simulated clock and register that function on every
    # connection SQLAlchemy opens.
    from sqlalchemy import event
    from sqlalchemy.engine import Engine
    from sqlalchemy.ext.compiler import compiles
    from sqlalchemy.sql import functions as sa_functions

    @compiles(sa_functions.now, "sqlite")
    def _sqlite_now(element, compiler, **kw):  # noqa: ANN001
        return "dsim_now()"

    @event.listens_for(Engine, "connect")
    def _register_now(dbapi_conn, record):  # noqa: ANN001
        try:
            dbapi_conn.create_function(
                "dsim_now", 0, lambda: simclock.CLOCK.aware().strftime("%Y-%m-%d %H:%M:%S"))
        except Exception:  # noqa: BLE001 - not a sqlite3 connection
            pass

    # seeded randomness for everything that ends up in URLs, cookies and tokens
    for fn in ("token_bytes", "token_hex", "token_urlsafe", "choice", "randbelow"):
        setattr(secrets, fn, getattr(SECRETS, fn))
    uuid.uuid4 = SECRETS.uuid4

    # no background thread: the asyncio helper loop is only used by websockets (out of scope)
    app_mod.asyncio_loop.start = lambda: None

    # cheap password hashing (same algorithm, lower cost parameter)
    from passlib.context import CryptContext
    import dashlive.server.models.user as user_mod
    user_mod.password_context = CryptContext(
        schemes=["bcrypt", "pbkdf2_sha256"], deprecated="auto", bcrypt__rounds=4)

    # locks of the application become cooperative: a thread of a burst that waits for one parks instead of
    # blocking with the baton in its hand
    from . import preempt
    preempt.install_lock_seams()

    # import every module of the package now (request handlers are otherwise imported on first use): the
    # snapshot below must know the import-time value of every module- and class-level mutable object
    import importlib
    import pkgutil
    for m in pkgutil.walk_packages(dashlive.__path__, "dashlive."):
        if m.name in sys.modules or m.name.endswith("__main__"):
            continue
        try:
            importlib.import_module(m.name)
        except BaseException:  # noqa: BLE001 - optional modules with dependencies missing in this sandbox
            pass
    simclock.rescan()

    _STATE.update({
        "repo": str(REPO),
        "patched_datetime": patched,
        "globals_snapshot": snapshot_globals(),
        "default_args": snapshot_default_args(),
    })
    return _STATE


_SIMPLE = (type(None), bool, int, float, str, bytes)


def _snap_value(val):
    if isinstance(val, _SIMPLE):
        return ("v", val)
    if isinstance(val, dict):
        return ("d", dict(val))
    if isinstance(val, list):
        return ("l", list(val))
    if isinstance(val, set):
        return ("s", set(val))
    return None


def snapshot_globals() -> dict:
    """Shallow snapshot of module- and class-level mutable state of every dashlive module."""
    snap: dict = {}
    for name, mod in sorted(sys.modules.items()):
        if mod is None or not (name == "dashlive" or name.startswith("dashlive.")):
            continue
        for attr, val in list(vars(mod).items()):
            if attr.startswith("__"):
                continue
            if isinstance(val, type) and getattr(val, "__module__", None) == name:
                if hasattr(val, "__mapper__") or hasattr(val, "__tablename__") or hasattr(val, "metadata"):
                    # SQLAlchemy declarative classes: instrumented attributes must not be touched; plain
                    # containers kept on the class (caches) are restored in place
                    for cattr, cval in list(vars(val).items()):
                        if cattr.startswith(("__", "_sa_")) or not isinstance(cval, (dict, list, set)):
                            continue
                        snap[(name, attr, cattr)] = ("m", _snap_value(cval)[1])
                    continue
                for cattr, cval in list(vars(val).items()):
                    if cattr.startswith("__") or callable(cval) or isinstance(
                            cval, (classmethod, staticmethod, property)):
                        continue
                    sv = _snap_value(cval)
                    if sv is not None and sv[0] == "v" and not (cval is None or isinstance(cval, (int, float))):
                        continue  # immutable str/bytes constants cannot change in place
                    if sv is not None:
                        snap[(name, attr, cattr)] = sv
            else:
                sv = _snap_value(val)
                if sv is not None and sv[0] != "v":
                    snap[(name, None, attr)] = sv
                elif sv is not None and (val is None or isinstance(val, (int, float))) and not isinstance(val, bool):
                    snap[(name, None, attr)] = sv
    return snap


def snapshot_default_args() -> list:
    """Mutable default argument values of every function and method defined in a dashlive module (the classic
    `def f(x, acc=[])` keeps state in the function object, not in a module or class attribute)."""
    import types
    out = []
    seen = set()

    def visit(fn, label: str) -> None:
        fn = getattr(fn, "__func__", fn)
        if not isinstance(fn, types.FunctionType) or id(fn) in seen:
            return
        seen.add(id(fn))
        for i, d in enumerate(fn.__defaults__ or ()):
            if isinstance(d, (dict, list, set)):
                out.append((label + f"#default{i}", d, type(d)(d)))
        for k, d in (fn.__kwdefaults__ or {}).items():
            if isinstance(d, (dict, list, set)):
                out.append((label + f"#{k}", d, type(d)(d)))

    for name, mod in sorted(sys.modules.items()):
        if mod is None or not (name == "dashlive" or name.startswith("dashlive.")):
            continue
        for attr, val in list(vars(mod).items()):
            if isinstance(val, type) and getattr(val, "__module__", None) == name:
                for cattr, cval in list(vars(val).items()):
                    visit(cval, f"{name}.{attr}.{cattr}")
            elif getattr(val, "__module__", None) == name:
                visit(val, f"{name}.{attr}")
    return out


def restore_globals(counter: dict | None = None) -> list[str]:
    """Put every snapshotted global back to its import-time value; returns the names that had changed."""
    snap = _STATE.get("globals_snapshot", {})
    changed: list[str] = []
    for label, obj, orig in _STATE.get("default_args", []):
        if obj != orig:
            obj.clear()
            (obj.extend if isinstance(obj, list) else obj.update)(type(orig)(orig))
            changed.append(label)
            if counter is not None:
                counter[label] = counter.get(label, 0) + 1
    for (modname, clsname, attr), (kind, val) in snap.items():
        mod = sys.modules.get(modname)
        if mod is None:
            continue
        owner = mod if clsname is None else getattr(mod, clsname, None)
        if owner is None:
            continue
        try:
            cur = getattr(owner, attr) if clsname is None else vars(owner).get(attr)
        except AttributeError:
            cur = None
        if kind == "m":
            if type(cur) is type(val) and cur != val:
                cur.clear()
                (cur.extend if isinstance(cur, list) else cur.update)(type(val)(val))
                label = f"{modname}.{clsname}.{attr}"
                changed.append(label)
                if counter is not None:
                    counter[label] = counter.get(label, 0) + 1
            continue
        if kind == "v":
            same = cur is val or (type(cur) is type(val) and cur == val)
            new = val
        else:
            same = type(cur) is type(val) and cur == val
            new = type(val)(val)
        if not same:
            try:
                setattr(owner, attr, new)
            except (AttributeError, TypeError):
                continue
            label = f"{modname}.{clsname + '.' if clsname else ''}{attr}"
            changed.append(label)
            if counter is not None:
                counter[label] = counter.get(label, 0) + 1
    return changed
