"""Simulator worker process: executes runs on request of the runner.

Protocol: one JSON document per line on stdin, one JSON reply per line on a private copy of stdout
(anything the system under test prints goes to stderr).  A hard watchdog (faulthandler) kills the process
when one command exceeds its wall budget; the runner reports that as HARNESS, never as a verdict.
"""
from __future__ import annotations

import faulthandler
import importlib
import json
import os
import sys
import warnings


def main() -> int:
    reply_fd = os.dup(1)
    os.dup2(2, 1)
    reply = os.fdopen(reply_fd, "w", buffering=1)
    sys.stdout = sys.stderr
    warnings.simplefilter("ignore")
    from . import boot
    from .props import base
    info = boot.bootstrap()
    reply.write(json.dumps({"ready": True, "repo": info["repo"], "hashseed": os.environ.get("PYTHONHASHSEED"),
                            "patched": len(info["patched_datetime"])}) + "\n")
    mods: dict[str, object] = {}
    for line in sys.stdin:
        line = line.strip()
        if not line:
            continue
        cmd = json.loads(line)
        if cmd.get("cmd") == "quit":
            break
        timeout = float(cmd.get("timeout", 180))
        faulthandler.dump_traceback_later(timeout, exit=True)
        try:
            prop = cmd["prop"]
            if prop not in mods:
                mods[prop] = importlib.import_module(f"dsim.props.{prop.lower()}")
            mod = mods[prop]
            if cmd["cmd"] == "gen_run":
                os.environ["VERIF_SEED"] = str(int(cmd["verif_seed"]))     # finite sweeps rotate their start with it
                seed = base.run_seed(prop, int(cmd["verif_seed"]), int(cmd["index"]))
                spec = mod.generate(seed, cmd["tier"], int(cmd["index"]))
                out = base.safe_execute(mod, spec)
                res = {"out": out}
                if out.get("violations") or out.get("harness_error") or cmd.get("want_spec"):
                    res["spec"] = spec
                else:
                    res["spec_summary"] = summarize(spec)
            elif cmd["cmd"] == "run_spec":
                out = base.safe_execute(mod, cmd["spec"])
                res = {"out": out}
            else:
                res = {"error": f"unknown cmd {cmd.get('cmd')}"}
        except Exception as err:  # noqa: BLE001
            import traceback
            res = {"error": f"{type(err).__name__}: {err}", "trace": traceback.format_exc()[-2000:]}
        finally:
            faulthandler.cancel_dump_traceback_later()
        reply.write(json.dumps(res, default=str) + "\n")
    from .world import SCRATCH_ROOT
    import shutil
    shutil.rmtree(SCRATCH_ROOT, ignore_errors=True)
    return 0


def summarize(spec: dict) -> dict:
    """Compact, readable view of a spec for evidence samples."""
    actors = []
    for a in spec.get("actors", []):
        steps = []
        for st in a.get("script", [])[:8]:
            s = {k: v for k, v in st.items() if k in ("op", "path", "q", "us", "select", "what", "method", "url", "name")}
            steps.append(s)
        actors.append({"id": a["id"], "kind": a.get("kind"), "steps": len(a.get("script", [])), "head": steps,
                       "faults": a.get("faults")})
    out = {k: v for k, v in spec.items() if k not in ("actors",)}
    out["actors"] = actors
    return out


if __name__ == "__main__":
    sys.exit(main())
